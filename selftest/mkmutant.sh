#!/bin/bash
# usage: mkmutant.sh <kind: mutants|equivalents> <name> <file> <python-regex-old> <new>   (exact string replace, first occurrence)
set -e
kind=$1; name=$2; file=$3; old=$4; new=$5
tmp=$(mktemp -d)
cp -a /repo $tmp/repo
(cd $tmp/repo && git add -A >/dev/null 2>&1 && git -c user.email=x@x -c user.name=x commit -qm wip >/dev/null 2>&1 || true)
python3 - "$tmp/repo/$file" "$old" "$new" <<'PY'
import sys
p,old,new=sys.argv[1:4]
s=open(p).read()
if old not in s:
    print("pattern not found", file=sys.stderr); sys.exit(3)
s=s.replace(old,new,1)
open(p,'w').write(s)
PY
(cd $tmp/repo && git diff) > /verif/selftest/$kind/$name.patch
(cd $tmp/repo && GOFLAGS=-mod=mod GOPROXY=off go build ./... ) || echo "DOES NOT BUILD"
rm -rf $tmp
echo "wrote $name"
