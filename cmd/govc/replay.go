package main

// From a failed obligation to a replay on the real code: model values of the
// function's parameters are read back from the solver, turned into a Go test
// that is injected into the package with -overlay, and the violated clause is
// re-evaluated on the observed concrete behaviour.

import (
	"bytes"
	"encoding/json"
	"fmt"
	"go/types"
	"os"
	"os/exec"
	"path/filepath"
	"regexp"
	"strconv"
	"strings"
	"time"

	"golang.org/x/tools/go/ssa"
)

type replayDoc struct {
	Property    string            `json:"property"`
	Obligation  string            `json:"obligation"`
	Kind        string            `json:"kind"`
	Function    string            `json:"function"`
	Source      string            `json:"source"`
	Clause      string            `json:"clause,omitempty"`
	Status      string            `json:"solver_status"`
	Solver      string            `json:"solver"`
	SolverOut   map[string]string `json:"solver_outputs,omitempty"`
	SMTFile     string            `json:"smt_file"`
	Inputs      []string          `json:"concrete_inputs,omitempty"`
	TestSource  string            `json:"test_source,omitempty"`
	Pkg         string            `json:"package,omitempty"`
	PkgDir      string            `json:"package_dir,omitempty"`
	Observed    string            `json:"observed,omitempty"`
	Verdict     string            `json:"verdict"` // reproduced | not-reproduced | no-model | not-replayable
	Note        string            `json:"note,omitempty"`
	ReplayedAt  string            `json:"replayed_at"`
	ClauseCheck string            `json:"clause_on_observed_behaviour,omitempty"`
}

func (run *checkRun) replay(eng *Engine, r *FuncResult, o *Obligation, outDir string) violation {
	dir := filepath.Join(outDir, "replay", run.prop.ID)
	os.MkdirAll(dir, 0o755)
	path := filepath.Join(dir, sanitize(o.Name)+".json")
	smtPath := filepath.Join(dir, sanitize(o.Name)+".smt2")
	q := o.Query
	if q == "" {
		q = r.Ctx.query(o)
	}
	os.WriteFile(smtPath, []byte(q+"(check-sat)\n(get-model)\n"), 0o644)
	doc := &replayDoc{Property: run.prop.ID, Obligation: o.Name, Kind: o.Kind, Function: r.Key,
		Source: fmt.Sprintf("%s:%d", o.Pos.Filename, o.Pos.Line), Clause: o.Clause, Status: o.Result.Status,
		Solver: o.Result.Solver, SolverOut: o.Result.Outputs, SMTFile: smtPath, ReplayedAt: time.Now().UTC().Format(time.RFC3339)}
	v := violation{obligation: o.Name, replay: path}
	if o.Result.Status != "sat" {
		doc.Verdict = "no-model"
		doc.Note = "the solvers returned no model (unknown/timeout); the obligation is reported as failed without a concrete input"
	} else {
		func() {
			defer func() {
				if rec := recover(); rec != nil {
					doc.Verdict = "not-replayable"
					doc.Note = fmt.Sprint(rec)
					if u, ok := rec.(unsupported); ok {
						doc.Note = u.msg
					}
				}
			}()
			rp := &replayer{eng: eng, fx: r.Ctx, o: o, doc: doc}
			rp.run()
		}()
	}
	v.reproduced = doc.Verdict == "reproduced"
	v.detail = doc.Observed
	b, _ := json.MarshalIndent(doc, "", " ")
	os.WriteFile(path, b, 0o644)
	return v
}

type replayer struct {
	eng     *Engine
	fx      *FnCtx
	o       *Obligation
	doc     *replayDoc
	imports map[string]string // path -> name
	values  map[T]string
	extra   string // extra constraints that keep the model small
}

// preferSmall looks for a model in which every string and slice reachable
// from the parameters is short; it falls back to the unconstrained model.
func (rp *replayer) preferSmall() {
	var cs []T
	init := &State{guard: "true", cells: map[*Cell]Val{}, heaps: map[string]T{}, alloc: "0"}
	var walk func(v Val, depth int)
	walk = func(v Val, depth int) {
		switch v.sh.kind {
		case KStr:
			cs = append(cs, le(v.strLen(), "40"))
		case KSlice:
			cs = append(cs, le(v.slLen(), "40"), le(v.slCap(), "64"))
		case KStruct:
			for i := range v.sh.fields {
				walk(v.field(i), depth)
			}
		case KPtr:
			if depth < 2 && v.ptr == nil && v.sh.elem != nil && v.sh.elem.kind == KStruct {
				walk(rp.fx.loadObj(init, v.sh.elem, v.ts[0]), depth+1)
			}
		}
	}
	for _, p := range rp.fx.entryParams {
		walk(p.v, 0)
	}
	if len(cs) == 0 {
		return
	}
	extra := "(assert " + and(cs...) + ")\n"
	q := rp.fx.query(rp.o) + extra
	res := runSolversText(q, 10, []string{"z3-new"})
	if res.Status == "sat" {
		rp.extra = extra
	}
}

// getValues asks the solver for the values of the given terms in a model of
// the failed obligation.
func (rp *replayer) getValues(terms []T) map[T]string {
	out := map[T]string{}
	if len(terms) == 0 {
		return out
	}
	q := rp.fx.query(rp.o)
	var b strings.Builder
	b.WriteString("(set-option :produce-models true)\n")
	b.WriteString(q)
	b.WriteString(rp.extra)
	b.WriteString("(check-sat)\n(get-value (")
	for _, t := range terms {
		b.WriteString(t)
		b.WriteString(" ")
	}
	b.WriteString("))\n")
	dir, _ := os.MkdirTemp("", "govc-r")
	defer os.RemoveAll(dir)
	f := filepath.Join(dir, "q.smt2")
	os.WriteFile(f, []byte(b.String()), 0o644)
	cmd := exec.Command("z3-new", "-T:20", "-smt2", f)
	outb, _ := cmd.CombinedOutput()
	text := string(outb)
	if !strings.HasPrefix(strings.TrimSpace(text), "sat") {
		unsupp("model query did not return sat: %s", truncate(text, 200))
	}
	sx := parseSexprs(text[strings.Index(text, "sat")+3:])
	if len(sx) == 0 {
		return out
	}
	pairs, _ := sx[0].([]any)
	for i, p := range pairs {
		pp, ok := p.([]any)
		if !ok || len(pp) != 2 || i >= len(terms) {
			continue
		}
		out[terms[i]] = sexprString(pp[1])
	}
	return out
}

func parseSexprs(s string) []any {
	var stack [][]any
	cur := []any{}
	i := 0
	for i < len(s) {
		c := s[i]
		switch {
		case c == '(':
			stack = append(stack, cur)
			cur = []any{}
			i++
		case c == ')':
			if len(stack) == 0 {
				return cur
			}
			done := cur
			cur = stack[len(stack)-1]
			stack = stack[:len(stack)-1]
			cur = append(cur, done)
			i++
		case c == ' ' || c == '\n' || c == '\t' || c == '\r':
			i++
		case c == '|':
			j := strings.IndexByte(s[i+1:], '|')
			if j < 0 {
				return cur
			}
			cur = append(cur, s[i:i+j+2])
			i += j + 2
		default:
			j := i
			for j < len(s) && !strings.ContainsRune("() \n\t\r", rune(s[j])) {
				j++
			}
			cur = append(cur, s[i:j])
			i = j
		}
	}
	return cur
}

func sexprString(x any) string {
	switch v := x.(type) {
	case string:
		return v
	case []any:
		var parts []string
		for _, e := range v {
			parts = append(parts, sexprString(e))
		}
		return "(" + strings.Join(parts, " ") + ")"
	}
	return ""
}

func modelInt(s string) (int64, bool) {
	s = strings.TrimSpace(s)
	neg := false
	if strings.HasPrefix(s, "(- ") {
		neg = true
		s = strings.TrimSuffix(s[3:], ")")
	}
	v, err := strconv.ParseInt(s, 10, 64)
	if err != nil {
		return 0, false
	}
	if neg {
		v = -v
	}
	return v, true
}

func (rp *replayer) intOf(t T) int64 {
	vals := rp.getValues([]T{t})
	v, ok := modelInt(vals[t])
	if !ok {
		unsupp("model value of %s is not an integer: %q", t, vals[t])
	}
	return v
}

func (rp *replayer) intsOf(ts []T) []int64 {
	vals := rp.getValues(ts)
	out := make([]int64, len(ts))
	for i, t := range ts {
		v, ok := modelInt(vals[t])
		if !ok {
			unsupp("model value of %s is not an integer: %q", t, vals[t])
		}
		out[i] = v
	}
	return out
}

func (rp *replayer) typeStr(t types.Type, own *types.Package) string {
	return types.TypeString(t, func(p *types.Package) string {
		if p == own {
			return ""
		}
		rp.imports[p.Path()] = p.Name()
		return p.Name()
	})
}

func bytesLit(bs []int64) string {
	var parts []string
	for _, b := range bs {
		parts = append(parts, strconv.FormatInt(b&0xff, 10))
	}
	return strings.Join(parts, ", ")
}

const maxReplayLen = 4096

// concretize renders the model value of v as a Go expression.
func (rp *replayer) concretize(v Val, t types.Type, own *types.Package) string {
	fx := rp.fx
	init := &State{guard: "true", cells: map[*Cell]Val{}, heaps: map[string]T{}, alloc: "0"}
	switch v.sh.kind {
	case KInt:
		n := rp.intOf(v.t())
		return fmt.Sprintf("%s(%d)", rp.typeStr(t, own), n)
	case KBool:
		vals := rp.getValues([]T{v.t()})
		return fmt.Sprintf("%s(%s)", rp.typeStr(t, own), vals[v.t()])
	case KStr:
		n := rp.intOf(v.strLen())
		if n > maxReplayLen {
			unsupp("model string of length %d is too large to replay", n)
		}
		var ts []T
		for i := int64(0); i < n; i++ {
			ts = append(ts, sel(v.strArr(), add(v.strOff(), num(i))))
		}
		bs := rp.intsOf(ts)
		return fmt.Sprintf("%s([]byte{%s})", rp.typeStr(t, own), bytesLit(bs))
	case KArr:
		if v.sh.elem.kind != KInt {
			unsupp("array of %s not replayable", v.sh.elem.key)
		}
		var ts []T
		for i := int64(0); i < v.sh.n; i++ {
			ts = append(ts, sel(v.ts[0], num(i)))
		}
		bs := rp.intsOf(ts)
		var parts []string
		for _, b := range bs {
			parts = append(parts, strconv.FormatInt(b, 10))
		}
		return fmt.Sprintf("%s{%s}", rp.typeStr(t, own), strings.Join(parts, ", "))
	case KSlice:
		if v.sh.elem.kind != KInt {
			unsupp("slice of %s not replayable", v.sh.elem.key)
		}
		hdr := rp.intsOf([]T{v.slRef(), v.slLen(), v.slCap()})
		if hdr[0] == 0 {
			return fmt.Sprintf("%s(nil)", rp.typeStr(t, own))
		}
		if hdr[1] > maxReplayLen || hdr[2] > maxReplayLen {
			unsupp("model slice too large to replay")
		}
		var ts []T
		back := fx.sliceBacking(init, v.sh.elem, v.slRef(), 0)
		for i := int64(0); i < hdr[1]; i++ {
			ts = append(ts, sel(back, add(v.slOff(), num(i))))
		}
		bs := rp.intsOf(ts)
		var parts []string
		for _, b := range bs {
			parts = append(parts, strconv.FormatInt(b, 10))
		}
		return fmt.Sprintf("append(make(%s, 0, %d), %s{%s}...)", rp.typeStr(t, own), hdr[2], rp.typeStr(t, own), strings.Join(parts, ", "))
	case KPtr:
		if v.ptr != nil || v.sh.elem == nil {
			unsupp("interior pointer parameter is not replayable")
		}
		if rp.intOf(v.ts[0]) == 0 {
			return "nil"
		}
		pt, ok := t.Underlying().(*types.Pointer)
		if !ok {
			unsupp("pointer parameter of type %s", t)
		}
		obj := fx.loadObj(init, v.sh.elem, v.ts[0])
		inner := rp.concretize(obj, pt.Elem(), own)
		if v.sh.elem.kind == KStruct {
			return "&" + inner
		}
		return fmt.Sprintf("func() %s { x := %s; return &x }()", rp.typeStr(t, own), inner)
	case KStruct:
		st, ok := t.Underlying().(*types.Struct)
		if !ok {
			unsupp("struct value of type %s", t)
		}
		var parts []string
		for i := 0; i < st.NumFields(); i++ {
			f := st.Field(i)
			if !f.Exported() && f.Pkg() != own {
				continue // unexported field of another package: zero value
			}
			fv := v.field(i)
			var lit string
			func() {
				defer func() {
					if r := recover(); r != nil {
						lit = "" // not expressible: leave the zero value
					}
				}()
				lit = rp.concretize(fv, f.Type(), own)
			}()
			if lit != "" {
				parts = append(parts, f.Name()+": "+lit)
			}
		}
		return rp.typeStr(t, own) + "{" + strings.Join(parts, ", ") + "}"
	case KIface:
		if rp.intOf(v.ifTyp()) == 0 {
			return "nil"
		}
		unsupp("non-nil interface parameter is not replayable")
	case KOpaque:
		switch v.sh.key {
		case "net/netip.Addr":
			rp.imports["net/netip"] = "netip"
			env := &Env{fx: fx, vars: map[string]CV{"a": cvOf(v)}, st: init, bound: map[string]bool{"x": true}}
			term := func(src string) T {
				e, err := parseExpr(src)
				if err != nil {
					unsupp("internal: %v", err)
				}
				c := env.eval(e)
				if c.k == cvBool {
					return c.t
				}
				return c.asInt()
			}
			vals := rp.getValues([]T{term("addrValid(a)"), term("addrIs4(a)")})
			var flags []string
			for _, k := range []T{term("addrValid(a)"), term("addrIs4(a)")} {
				flags = append(flags, vals[k])
			}
			if flags[0] != "true" {
				return "netip.Addr{}"
			}
			var ts []T
			for i := 0; i < 16; i++ {
				ts = append(ts, term(fmt.Sprintf("addrByte(a, %d)", i)))
			}
			bs := rp.intsOf(ts)
			if flags[1] == "true" {
				return fmt.Sprintf("netip.AddrFrom4([4]byte{%s})", bytesLit(bs[12:]))
			}
			return fmt.Sprintf("netip.AddrFrom16([16]byte{%s})", bytesLit(bs))
		}
	}
	unsupp("parameter of type %s is not replayable", v.sh.key)
	return ""
}

func (rp *replayer) run() {
	fx := rp.fx
	fn := fx.root
	if fn.Pkg == nil || fn.Parent() != nil {
		unsupp("only package-level functions and methods are replayed")
	}
	own := fn.Pkg.Pkg
	rp.imports = map[string]string{"fmt": "fmt", "testing": "testing", "os": "os"}
	rp.preferSmall()
	var args []string
	for i, p := range fn.Params {
		ge := rp.concretize(fx.entryParams[i].v, p.Type(), own)
		args = append(args, ge)
		rp.doc.Inputs = append(rp.doc.Inputs, fmt.Sprintf("%s = %s", p.Name(), ge))
	}
	call := fn.Name() + "(" + strings.Join(args, ", ") + ")"
	if fn.Signature.Recv() != nil {
		call = "(" + args[0] + ")." + fn.Name() + "(" + strings.Join(args[1:], ", ") + ")"
	}
	nres := fn.Signature.Results().Len()
	var lhs []string
	var prints []string
	for i := 0; i < nres; i++ {
		lhs = append(lhs, fmt.Sprintf("r%d", i))
		prints = append(prints, fmt.Sprintf("govcShow(%q, r%d)", fmt.Sprintf("result%d", i), i))
	}
	assign := ""
	if nres > 0 {
		assign = strings.Join(lhs, ", ") + " := "
	}
	var src strings.Builder
	fmt.Fprintf(&src, "package %s\n\nimport (\n", own.Name())
	for p, n := range rp.imports {
		fmt.Fprintf(&src, "\t%s %q\n", n, p)
	}
	src.WriteString(")\n\n")
	src.WriteString(`func govcShow(name string, v any) {
	switch x := v.(type) {
	case string:
		fmt.Fprintf(os.Stdout, "GOVC-RESULT %s string %x\n", name, x)
	case error:
		if x == nil {
			fmt.Fprintf(os.Stdout, "GOVC-RESULT %s nil\n", name)
		} else {
			fmt.Fprintf(os.Stdout, "GOVC-RESULT %s error %T %q\n", name, x, x.Error())
		}
	case nil:
		fmt.Fprintf(os.Stdout, "GOVC-RESULT %s nil\n", name)
	case interface{ As16() [16]byte }:
		fmt.Fprintf(os.Stdout, "GOVC-RESULT %s value %v\n", name, x)
	default:
		fmt.Fprintf(os.Stdout, "GOVC-RESULT %s value %v\n", name, x)
	}
}

`)
	fmt.Fprintf(&src, "func TestGovcReplay(t *testing.T) {\n\tdefer func() {\n\t\tif r := recover(); r != nil {\n\t\t\tfmt.Fprintf(os.Stdout, \"GOVC-PANIC %%v\\n\", r)\n\t\t}\n\t}()\n")
	fmt.Fprintf(&src, "\t%s%s\n", assign, call)
	for _, p := range prints {
		fmt.Fprintf(&src, "\t%s\n", p)
	}
	src.WriteString("\tfmt.Fprintln(os.Stdout, \"GOVC-RETURNED\")\n}\n")
	rp.doc.TestSource = src.String()
	rp.doc.Pkg = own.Path()
	pkgDir := filepath.Join(rp.eng.repo, strings.TrimPrefix(own.Path(), modulePrefix))
	rp.doc.PkgDir = pkgDir
	out := runReplayTest(rp.eng.repo, pkgDir, src.String())
	rp.doc.Observed = out
	rp.judge(out)
}

// runReplayTest injects the test with -overlay and runs it.
func runReplayTest(repo, pkgDir, src string) string {
	tmp, err := os.MkdirTemp("", "govc-replay")
	if err != nil {
		return "error: " + err.Error()
	}
	defer os.RemoveAll(tmp)
	tf := filepath.Join(tmp, "zz_govc_replay_test.go")
	os.WriteFile(tf, []byte(src), 0o644)
	ov := map[string]any{"Replace": map[string]string{filepath.Join(pkgDir, "zz_govc_replay_test.go"): tf}}
	ovb, _ := json.Marshal(ov)
	ovf := filepath.Join(tmp, "overlay.json")
	os.WriteFile(ovf, ovb, 0o644)
	cmd := exec.Command("bash", "-c", fmt.Sprintf("ulimit -v 8000000; go test -overlay %s -vet=off -count=1 -timeout 60s -run '^TestGovcReplay$' -v .", ovf))
	cmd.Dir = pkgDir
	cmd.Env = goEnv()
	var buf bytes.Buffer
	cmd.Stdout = &buf
	cmd.Stderr = &buf
	cmd.Run()
	var keep []string
	for _, l := range strings.Split(buf.String(), "\n") {
		if strings.HasPrefix(l, "GOVC-") || strings.Contains(l, "panic:") || strings.Contains(l, "timed out") || strings.HasPrefix(l, "FAIL") || strings.Contains(l, "cannot") || strings.Contains(l, "undefined") {
			keep = append(keep, l)
		}
	}
	return strings.Join(keep, "\n")
}

var resultLine = regexp.MustCompile(`^GOVC-RESULT (\S+) (\S+) ?(.*)$`)

// judge decides whether the observed behaviour violates the obligation.
func (rp *replayer) judge(out string) {
	o := rp.o
	panicked := strings.Contains(out, "GOVC-PANIC") || strings.Contains(out, "panic:")
	timedOut := strings.Contains(out, "timed out")
	switch o.Kind {
	case "bounds", "nil", "panic", "typeassert", "div", "requires":
		if panicked {
			rp.doc.Verdict = "reproduced"
			return
		}
		rp.doc.Verdict = "not-reproduced"
		rp.doc.Note = "the real code returned normally on the model input (the failed obligation sits behind a loop cut or a callee contract, so the model state need not be reachable from this input)"
	case "variant":
		if timedOut {
			rp.doc.Verdict = "reproduced"
			return
		}
		rp.doc.Verdict = "not-reproduced"
	case "ensures":
		if panicked {
			rp.doc.Verdict = "reproduced"
			rp.doc.Note = "the call panicked, so no postcondition holds"
			return
		}
		if !strings.Contains(out, "GOVC-RETURNED") {
			rp.doc.Verdict = "not-reproduced"
			rp.doc.Note = "replay did not complete"
			return
		}
		ok, msg := rp.clauseOnObserved(out)
		rp.doc.ClauseCheck = msg
		if !ok {
			rp.doc.Verdict = "reproduced"
		} else {
			rp.doc.Verdict = "not-reproduced"
		}
	default:
		rp.doc.Verdict = "not-reproduced"
	}
}

// clauseOnObserved evaluates the violated ensures clause on the concrete
// inputs and the results observed from the real code, using the same
// encoding (everything is pinned to constants, so the query is ground).
func (rp *replayer) clauseOnObserved(out string) (holds bool, msg string) {
	fx := rp.fx
	fn := fx.root
	o := rp.o
	// pin inputs to their model values, results to the observed values
	var pins []T
	for i := range fn.Params {
		v := fx.entryParams[i].v
		pins = append(pins, rp.pinToModel(v)...)
	}
	resVals := map[string]Val{}
	results := fn.Signature.Results()
	lines := map[string][]string{}
	for _, l := range strings.Split(out, "\n") {
		if m := resultLine.FindStringSubmatch(l); m != nil {
			lines[m[1]] = []string{m[2], m[3]}
		}
	}
	post := map[string]CV{}
	for i := 0; i < results.Len(); i++ {
		sh := shapeOf(results.At(i).Type())
		v := freshVal(fx.decls, sh, "obs")
		obs := lines[fmt.Sprintf("result%d", i)]
		if obs == nil {
			return true, "result not observed"
		}
		switch sh.kind {
		case KBool:
			pins = append(pins, eq(v.t(), obs[1]))
		case KInt:
			n, err := strconv.ParseInt(obs[1], 10, 64)
			if err != nil {
				return true, "unparsable integer result"
			}
			pins = append(pins, eq(v.t(), num(n)))
		case KStr:
			var bs []byte
			fmt.Sscanf(obs[1], "%x", &bs)
			pins = append(pins, eq(v.strOff(), "0"), eq(v.strLen(), num(int64(len(bs)))))
			for k, b := range bs {
				pins = append(pins, eq(sel(v.strArr(), num(int64(k))), num(int64(b))))
			}
		case KIface:
			if obs[0] == "nil" {
				pins = append(pins, eq(v.ifTyp(), "0"), eq(v.ifBox(), "0"))
			} else {
				tid := int64(900000)
				fields := strings.Fields(obs[1])
				if len(fields) > 0 {
					for _, ty := range fx.eng.tids.typs {
						if types.TypeString(ty, func(p *types.Package) string { return p.Name() }) == fields[0] {
							tid = int64(fx.eng.tids.id(ty))
						}
					}
				}
				pins = append(pins, eq(v.ifTyp(), num(tid)))
			}
		default:
			return true, "result of type " + sh.key + " cannot be pinned; clause not re-evaluated"
		}
		n := results.At(i).Name()
		if n == "" || n == "_" {
			n = fmt.Sprintf("result%d", i)
		}
		resVals[n] = v
		post[n] = cvOf(v)
		if results.Len() == 1 {
			post["result"] = cvOf(v)
		}
	}
	spec := fx.rootSpec
	if spec == nil {
		return true, "no contract"
	}
	var clause *Clause
	// (the name carries "#k" for the k-th return point)
	oname := o.Name
	if i := strings.LastIndex(oname, "#"); i > strings.LastIndex(oname, "/") {
		oname = oname[:i]
	}
	for i := range spec.Ensures {
		c := spec.Ensures[i]
		if strings.HasSuffix(oname, "/ensures/"+clauseName(c, i)) {
			clause = &spec.Ensures[i]
		}
	}
	if clause == nil {
		return true, "clause not found"
	}
	init := &State{guard: "true", cells: map[*Cell]Val{}, heaps: map[string]T{}, alloc: "0"}
	env := &Env{fx: fx, vars: post, st: init, old: init, bound: map[string]bool{}}
	if fn.Pkg != nil {
		env.pkg = fn.Pkg.Pkg
	}
	for i, p := range fn.Params {
		if _, shadow := env.vars[p.Name()]; !shadow {
			env.vars[p.Name()] = cvOf(fx.entryParams[i].v)
		}
	}
	nAssumeBefore := len(fx.assumes)
	t := env.eval(clause.E).asBool()
	var b strings.Builder
	b.WriteString(fx.eng.prelude)
	b.WriteString(fx.decls.Text())
	// spec-function axiom instances and string constants created so far
	for _, a := range fx.assumes {
		if strings.HasPrefix(a, "(=> ") {
			continue // path facts of the symbolic run are not used
		}
		_ = nAssumeBefore
		if isGroundDefinition(a) {
			b.WriteString("(assert " + a + ")\n")
		}
	}
	for _, p := range pins {
		b.WriteString("(assert " + p + ")\n")
	}
	b.WriteString("(assert (not " + t + "))\n")
	res := runSolversText(b.String(), 20, nil)
	switch res.Status {
	case "sat":
		return false, "the clause is FALSE on the observed behaviour of the real code"
	case "unsat":
		return true, "the clause holds on the observed behaviour of the real code"
	}
	return true, "clause evaluation undecided"
}

// isGroundDefinition keeps only assumptions that define string constants or
// instantiate spec-function postconditions (they carry no path guard).
func isGroundDefinition(a T) bool {
	return strings.HasPrefix(a, "(and (= (select |str!") || strings.HasPrefix(a, "(= (select |str!")
}

// pinToModel returns equalities fixing every component of v (and the bytes of
// strings/arrays) to its model value.
func (rp *replayer) pinToModel(v Val) []T {
	var pins []T
	switch v.sh.kind {
	case KInt, KBool:
		vals := rp.getValues([]T{v.t()})
		pins = append(pins, eq(v.t(), vals[v.t()]))
	case KStr:
		n := rp.intOf(v.strLen())
		off := rp.intOf(v.strOff())
		pins = append(pins, eq(v.strLen(), num(n)), eq(v.strOff(), num(off)))
		var ts []T
		for i := int64(0); i < n; i++ {
			ts = append(ts, sel(v.strArr(), add(v.strOff(), num(i))))
		}
		bs := rp.intsOf(ts)
		for i, b := range bs {
			pins = append(pins, eq(sel(v.strArr(), num(off+int64(i))), num(b)))
		}
	case KArr:
		var ts []T
		for i := int64(0); i < v.sh.n; i++ {
			ts = append(ts, sel(v.ts[0], num(i)))
		}
		bs := rp.intsOf(ts)
		for i, b := range bs {
			pins = append(pins, eq(sel(v.ts[0], num(int64(i))), num(b)))
		}
	case KOpaque:
		if v.sh.key == "net/netip.Addr" {
			init := &State{guard: "true", cells: map[*Cell]Val{}, heaps: map[string]T{}, alloc: "0"}
			env := &Env{fx: rp.fx, vars: map[string]CV{"a": cvOf(v)}, st: init, bound: map[string]bool{"x": true}}
			var ts []T
			for _, src := range []string{"addrValid(a)", "addrIs4(a)"} {
				e, _ := parseExpr(src)
				ts = append(ts, env.eval(e).asBool())
			}
			for i := 0; i < 16; i++ {
				e, _ := parseExpr(fmt.Sprintf("addrByte(a, %d)", i))
				ts = append(ts, env.eval(e).asInt())
			}
			vals := rp.getValues(ts)
			for _, t := range ts {
				pins = append(pins, eq(t, vals[t]))
			}
		}
	}
	return pins
}

// cmdReplay re-runs the test stored in a replay file.
func cmdReplay(args []string) int {
	if len(args) < 1 {
		fmt.Fprintln(os.Stderr, "usage: govc replay <file>")
		return 2
	}
	b, err := os.ReadFile(args[0])
	if err != nil {
		fmt.Fprintln(os.Stderr, err)
		return 2
	}
	var doc replayDoc
	if err := json.Unmarshal(b, &doc); err != nil {
		fmt.Fprintln(os.Stderr, err)
		return 2
	}
	fmt.Printf("obligation: %s\nverdict at check time: %s\n", doc.Obligation, doc.Verdict)
	for _, in := range doc.Inputs {
		fmt.Println("input:", in)
	}
	if doc.TestSource == "" {
		fmt.Println("no concrete input was produced for this obligation:", doc.Note)
		return 1
	}
	out := runReplayTest(repoDir(), doc.PkgDir, doc.TestSource)
	fmt.Println(out)
	if doc.ClauseCheck != "" {
		fmt.Println("clause:", doc.Clause, "—", doc.ClauseCheck)
	}
	return 1
}

var _ = ssa.NaiveForm
