package main

// From a failed obligation to a replay on the real code: model values of the
// function's parameters are read back from the solver, turned into a Go test
// that is injected into the package with -overlay, and the violated clause is
// re-evaluated on the observed concrete behaviour.

import (
	"go/constant"
	"bytes"
	"encoding/json"
	"fmt"
	"go/types"
	"os"
	"os/exec"
	"path/filepath"
	"regexp"
	"strconv"
	"strings"
	"time"

	"golang.org/x/tools/go/ssa"
)

type replayDoc struct {
	Property    string            `json:"property"`
	Obligation  string            `json:"obligation"`
	Kind        string            `json:"kind"`
	Function    string            `json:"function"`
	Source      string            `json:"source"`
	Clause      string            `json:"clause,omitempty"`
	Status      string            `json:"solver_status"`
	Solver      string            `json:"solver"`
	SolverOut   map[string]string `json:"solver_outputs,omitempty"`
	SMTFile     string            `json:"smt_file"`
	Inputs      []string          `json:"concrete_inputs,omitempty"`
	TestSource  string            `json:"test_source,omitempty"`
	Pkg         string            `json:"package,omitempty"`
	PkgDir      string            `json:"package_dir,omitempty"`
	Observed    string            `json:"observed,omitempty"`
	Verdict     string            `json:"verdict"` // reproduced | not-reproduced | no-model | not-replayable
	Note        string            `json:"note,omitempty"`
	ReplayedAt  string            `json:"replayed_at"`
	ClauseCheck string            `json:"clause_on_observed_behaviour,omitempty"`
}

func (run *checkRun) replay(eng *Engine, r *FuncResult, o *Obligation, outDir string) violation {
	dir := filepath.Join(outDir, "replay", run.prop.ID)
	os.MkdirAll(dir, 0o755)
	path := filepath.Join(dir, sanitize(o.Name)+".json")
	smtPath := filepath.Join(dir, sanitize(o.Name)+".smt2")
	q := o.Query
	if q == "" {
		q = r.Ctx.query(o)
	}
	os.WriteFile(smtPath, []byte(q+"(check-sat)\n(get-model)\n"), 0o644)
	doc := &replayDoc{Property: run.prop.ID, Obligation: o.Name, Kind: o.Kind, Function: r.Key,
		Source: fmt.Sprintf("%s:%d", o.Pos.Filename, o.Pos.Line), Clause: o.Clause, Status: o.Result.Status,
		Solver: o.Result.Solver, SolverOut: o.Result.Outputs, SMTFile: smtPath, ReplayedAt: time.Now().UTC().Format(time.RFC3339)}
	v := violation{obligation: o.Name, replay: path}
	if o.Result.Status != "sat" {
		doc.Verdict = "no-model"
		doc.Note = "the solvers returned no model (unknown/timeout); the obligation is reported as failed without a concrete input"
	} else {
		func() {
			defer func() {
				if rec := recover(); rec != nil {
					doc.Verdict = "not-replayable"
					doc.Note = fmt.Sprint(rec)
					if u, ok := rec.(unsupported); ok {
						doc.Note = u.msg
					}
				}
			}()
			rp := &replayer{eng: eng, fx: r.Ctx, o: o, doc: doc}
			rp.run()
		}()
	}
	v.reproduced = doc.Verdict == "reproduced"
	v.detail = doc.Observed
	b, _ := json.MarshalIndent(doc, "", " ")
	os.WriteFile(path, b, 0o644)
	return v
}

type replayer struct {
	eng     *Engine
	fx      *FnCtx
	o       *Obligation
	doc     *replayDoc
	imports map[string]string // path -> name
	values  map[T]string
	extra   string // extra constraints that keep the model small
	// unfaithful: some part of the model's input could not be built as a Go
	// value (e.g. a non-nil pointer field to a library object was left nil),
	// so the replayed input need not satisfy the preconditions: what the real
	// code does on it is not evidence
	unfaithful string
}

// preferSmall looks for a model in which every string and slice reachable
// from the parameters is short; it falls back to the unconstrained model.
func (rp *replayer) preferSmall() {
	var cs []T
	init := &State{guard: "true", cells: map[*Cell]Val{}, heaps: map[string]T{}, alloc: "0"}
	var walk func(v Val, depth int)
	walk = func(v Val, depth int) {
		switch v.sh.kind {
		case KStr:
			cs = append(cs, le(v.strLen(), "40"))
		case KSlice:
			cs = append(cs, le(v.slLen(), "40"), le(v.slCap(), "64"))
		case KStruct:
			for i := range v.sh.fields {
				walk(v.field(i), depth)
			}
		case KPtr:
			if depth < 2 && v.ptr == nil && v.sh.elem != nil && v.sh.elem.kind == KStruct {
				walk(rp.fx.loadObj(init, v.sh.elem, v.ts[0]), depth+1)
			}
		}
	}
	for _, p := range rp.fx.entryParams {
		walk(p.v, 0)
	}
	if len(cs) == 0 {
		return
	}
	extra := "(assert " + and(cs...) + ")\n"
	q := rp.fx.query(rp.o) + extra
	res := runSolversText(q, 10, []string{"z3-new"})
	if res.Status == "sat" {
		rp.extra = extra
	}
}

// getValues asks the solver for the values of the given terms in a model of
// the failed obligation.
func (rp *replayer) getValues(terms []T) map[T]string {
	out := map[T]string{}
	if len(terms) == 0 {
		return out
	}
	q := rp.fx.query(rp.o)
	var b strings.Builder
	b.WriteString("(set-option :produce-models true)\n")
	b.WriteString(q)
	b.WriteString(rp.extra)
	b.WriteString("(check-sat)\n(get-value (")
	for _, t := range terms {
		b.WriteString(t)
		b.WriteString(" ")
	}
	b.WriteString("))\n")
	dir, _ := os.MkdirTemp("", "govc-r")
	defer os.RemoveAll(dir)
	f := filepath.Join(dir, "q.smt2")
	os.WriteFile(f, []byte(b.String()), 0o644)
	cmd := exec.Command("z3-new", "-T:20", "-smt2", f)
	outb, _ := cmd.CombinedOutput()
	text := string(outb)
	if !strings.HasPrefix(strings.TrimSpace(text), "sat") {
		unsupp("model query did not return sat: %s", truncate(text, 200))
	}
	sx := parseSexprs(text[strings.Index(text, "sat")+3:])
	if len(sx) == 0 {
		return out
	}
	pairs, _ := sx[0].([]any)
	for i, p := range pairs {
		pp, ok := p.([]any)
		if !ok || len(pp) != 2 || i >= len(terms) {
			continue
		}
		out[terms[i]] = sexprString(pp[1])
	}
	return out
}

func parseSexprs(s string) []any {
	var stack [][]any
	cur := []any{}
	i := 0
	for i < len(s) {
		c := s[i]
		switch {
		case c == '(':
			stack = append(stack, cur)
			cur = []any{}
			i++
		case c == ')':
			if len(stack) == 0 {
				return cur
			}
			done := cur
			cur = stack[len(stack)-1]
			stack = stack[:len(stack)-1]
			cur = append(cur, done)
			i++
		case c == ' ' || c == '\n' || c == '\t' || c == '\r':
			i++
		case c == '|':
			j := strings.IndexByte(s[i+1:], '|')
			if j < 0 {
				return cur
			}
			cur = append(cur, s[i:i+j+2])
			i += j + 2
		default:
			j := i
			for j < len(s) && !strings.ContainsRune("() \n\t\r", rune(s[j])) {
				j++
			}
			cur = append(cur, s[i:j])
			i = j
		}
	}
	return cur
}

func sexprString(x any) string {
	switch v := x.(type) {
	case string:
		return v
	case []any:
		var parts []string
		for _, e := range v {
			parts = append(parts, sexprString(e))
		}
		return "(" + strings.Join(parts, " ") + ")"
	}
	return ""
}

func modelInt(s string) (int64, bool) {
	s = strings.TrimSpace(s)
	neg := false
	if strings.HasPrefix(s, "(- ") {
		neg = true
		s = strings.TrimSuffix(s[3:], ")")
	}
	v, err := strconv.ParseInt(s, 10, 64)
	if err != nil {
		return 0, false
	}
	if neg {
		v = -v
	}
	return v, true
}

func (rp *replayer) intOf(t T) int64 {
	vals := rp.getValues([]T{t})
	v, ok := modelInt(vals[t])
	if !ok {
		unsupp("model value of %s is not an integer: %q", t, vals[t])
	}
	return v
}

func (rp *replayer) intsOf(ts []T) []int64 {
	vals := rp.getValues(ts)
	out := make([]int64, len(ts))
	for i, t := range ts {
		v, ok := modelInt(vals[t])
		if !ok {
			unsupp("model value of %s is not an integer: %q", t, vals[t])
		}
		out[i] = v
	}
	return out
}

func (rp *replayer) typeStr(t types.Type, own *types.Package) string {
	return types.TypeString(t, func(p *types.Package) string {
		if p == own {
			return ""
		}
		rp.imports[p.Path()] = p.Name()
		return p.Name()
	})
}

func bytesLit(bs []int64) string {
	var parts []string
	for _, b := range bs {
		parts = append(parts, strconv.FormatInt(b&0xff, 10))
	}
	return strings.Join(parts, ", ")
}

const maxReplayLen = 4096

// concretize renders the model value of v as a Go expression.
func (rp *replayer) concretize(v Val, t types.Type, own *types.Package) string {
	fx := rp.fx
	init := &State{guard: "true", cells: map[*Cell]Val{}, heaps: map[string]T{}, alloc: "0"}
	switch v.sh.kind {
	case KInt:
		n := rp.intOf(v.t())
		return fmt.Sprintf("%s(%d)", rp.typeStr(t, own), n)
	case KBool:
		vals := rp.getValues([]T{v.t()})
		return fmt.Sprintf("%s(%s)", rp.typeStr(t, own), vals[v.t()])
	case KStr:
		n := rp.intOf(v.strLen())
		if n > maxReplayLen {
			unsupp("model string of length %d is too large to replay", n)
		}
		var ts []T
		for i := int64(0); i < n; i++ {
			ts = append(ts, sel(v.strArr(), add(v.strOff(), num(i))))
		}
		bs := rp.intsOf(ts)
		return fmt.Sprintf("%s([]byte{%s})", rp.typeStr(t, own), bytesLit(bs))
	case KArr:
		if v.sh.elem.kind != KInt {
			unsupp("array of %s not replayable", v.sh.elem.key)
		}
		var ts []T
		for i := int64(0); i < v.sh.n; i++ {
			ts = append(ts, sel(v.ts[0], num(i)))
		}
		bs := rp.intsOf(ts)
		var parts []string
		for _, b := range bs {
			parts = append(parts, strconv.FormatInt(b, 10))
		}
		return fmt.Sprintf("%s{%s}", rp.typeStr(t, own), strings.Join(parts, ", "))
	case KSlice:
		if v.sh.elem.kind != KInt {
			unsupp("slice of %s not replayable", v.sh.elem.key)
		}
		hdr := rp.intsOf([]T{v.slRef(), v.slLen(), v.slCap()})
		if hdr[0] == 0 {
			return fmt.Sprintf("%s(nil)", rp.typeStr(t, own))
		}
		if hdr[1] > maxReplayLen || hdr[2] > maxReplayLen {
			unsupp("model slice too large to replay")
		}
		var ts []T
		back := fx.sliceBacking(init, v.sh.elem, v.slRef(), 0)
		for i := int64(0); i < hdr[1]; i++ {
			ts = append(ts, sel(back, add(v.slOff(), num(i))))
		}
		bs := rp.intsOf(ts)
		var parts []string
		for _, b := range bs {
			parts = append(parts, strconv.FormatInt(b, 10))
		}
		return fmt.Sprintf("append(make(%s, 0, %d), %s{%s}...)", rp.typeStr(t, own), hdr[2], rp.typeStr(t, own), strings.Join(parts, ", "))
	case KPtr:
		if v.ptr != nil || v.sh.elem == nil {
			unsupp("interior pointer parameter is not replayable")
		}
		if rp.intOf(v.ts[0]) == 0 {
			return "nil"
		}
		pt, ok := t.Underlying().(*types.Pointer)
		if !ok {
			unsupp("pointer parameter of type %s", t)
		}
		obj := fx.loadObj(init, v.sh.elem, v.ts[0])
		inner := rp.concretize(obj, pt.Elem(), own)
		if v.sh.elem.kind == KStruct {
			return "&" + inner
		}
		return fmt.Sprintf("func() %s { x := %s; return &x }()", rp.typeStr(t, own), inner)
	case KStruct:
		st, ok := t.Underlying().(*types.Struct)
		if !ok {
			unsupp("struct value of type %s", t)
		}
		var parts []string
		for i := 0; i < st.NumFields(); i++ {
			f := st.Field(i)
			if !f.Exported() && f.Pkg() != own {
				rp.unfaithful = "unexported field " + f.Name() + " of another package left at its zero value"
				continue // unexported field of another package: zero value
			}
			fv := v.field(i)
			var lit string
			func() {
				defer func() {
					if r := recover(); r != nil {
						lit = "" // not expressible: leave the zero value
						rp.unfaithful = "field " + f.Name() + " could not be built from the model and was left at its zero value"
					}
				}()
				lit = rp.concretize(fv, f.Type(), own)
			}()
			if lit != "" {
				parts = append(parts, f.Name()+": "+lit)
			}
		}
		return rp.typeStr(t, own) + "{" + strings.Join(parts, ", ") + "}"
	case KIface:
		if rp.intOf(v.ifTyp()) == 0 {
			return "nil"
		}
		unsupp("non-nil interface parameter is not replayable")
	case KOpaque:
		switch v.sh.key {
		case "net/netip.Addr":
			rp.imports["net/netip"] = "netip"
			env := &Env{fx: fx, vars: map[string]CV{"a": cvOf(v)}, st: init, bound: map[string]bool{"x": true}}
			term := func(src string) T {
				e, err := parseExpr(src)
				if err != nil {
					unsupp("internal: %v", err)
				}
				c := env.eval(e)
				if c.k == cvBool {
					return c.t
				}
				return c.asInt()
			}
			vals := rp.getValues([]T{term("addrValid(a)"), term("addrIs4(a)")})
			var flags []string
			for _, k := range []T{term("addrValid(a)"), term("addrIs4(a)")} {
				flags = append(flags, vals[k])
			}
			if flags[0] != "true" {
				return "netip.Addr{}"
			}
			var ts []T
			for i := 0; i < 16; i++ {
				ts = append(ts, term(fmt.Sprintf("addrByte(a, %d)", i)))
			}
			bs := rp.intsOf(ts)
			if flags[1] == "true" {
				return fmt.Sprintf("netip.AddrFrom4([4]byte{%s})", bytesLit(bs[12:]))
			}
			return fmt.Sprintf("netip.AddrFrom16([16]byte{%s})", bytesLit(bs))
		}
	}
	unsupp("parameter of type %s is not replayable", v.sh.key)
	return ""
}

func (rp *replayer) run() {
	fx := rp.fx
	fn := fx.root
	if fn.Pkg == nil || fn.Parent() != nil {
		unsupp("only package-level functions and methods are replayed")
	}
	own := fn.Pkg.Pkg
	rp.imports = map[string]string{"fmt": "fmt", "testing": "testing", "os": "os"}
	rp.preferSmall()
	var args []string
	for i, p := range fn.Params {
		ge := rp.concretize(fx.entryParams[i].v, p.Type(), own)
		args = append(args, ge)
		rp.doc.Inputs = append(rp.doc.Inputs, fmt.Sprintf("%s = %s", p.Name(), ge))
	}
	call := fn.Name() + "(" + strings.Join(args, ", ") + ")"
	if fn.Signature.Recv() != nil {
		call = "(" + args[0] + ")." + fn.Name() + "(" + strings.Join(args[1:], ", ") + ")"
	}
	nres := fn.Signature.Results().Len()
	var lhs []string
	var prints []string
	for i := 0; i < nres; i++ {
		lhs = append(lhs, fmt.Sprintf("r%d", i))
		prints = append(prints, fmt.Sprintf("govcShow(%q, r%d)", fmt.Sprintf("result%d", i), i))
	}
	assign := ""
	if nres > 0 {
		assign = strings.Join(lhs, ", ") + " := "
	}
	var src strings.Builder
	fmt.Fprintf(&src, "package %s\n\nimport (\n", own.Name())
	for p, n := range rp.imports {
		fmt.Fprintf(&src, "\t%s %q\n", n, p)
	}
	src.WriteString(")\n\n")
	src.WriteString(`func govcShow(name string, v any) {
	switch x := v.(type) {
	case string:
		fmt.Fprintf(os.Stdout, "GOVC-RESULT %s string %x\n", name, x)
	case error:
		if x == nil {
			fmt.Fprintf(os.Stdout, "GOVC-RESULT %s nil\n", name)
		} else {
			fmt.Fprintf(os.Stdout, "GOVC-RESULT %s error %T %q\n", name, x, x.Error())
		}
	case nil:
		fmt.Fprintf(os.Stdout, "GOVC-RESULT %s nil\n", name)
	case interface{ As16() [16]byte }:
		fmt.Fprintf(os.Stdout, "GOVC-RESULT %s value %v\n", name, x)
	default:
		fmt.Fprintf(os.Stdout, "GOVC-RESULT %s value %v\n", name, x)
	}
}

`)
	fmt.Fprintf(&src, "func TestGovcReplay(t *testing.T) {\n\tdefer func() {\n\t\tif r := recover(); r != nil {\n\t\t\tfmt.Fprintf(os.Stdout, \"GOVC-PANIC %%v\\n\", r)\n\t\t}\n\t}()\n")
	fmt.Fprintf(&src, "\t%s%s\n", assign, call)
	for _, p := range prints {
		fmt.Fprintf(&src, "\t%s\n", p)
	}
	src.WriteString("\tfmt.Fprintln(os.Stdout, \"GOVC-RETURNED\")\n}\n")
	rp.doc.TestSource = src.String()
	rp.doc.Pkg = own.Path()
	pkgDir := filepath.Join(rp.eng.repo, strings.TrimPrefix(own.Path(), modulePrefix))
	rp.doc.PkgDir = pkgDir
	out := runReplayTest(rp.eng.repo, pkgDir, src.String())
	rp.doc.Observed = out
	rp.judge(out)
	if rp.doc.Verdict != "reproduced" {
		rp.searchPanic()
	}
}

// searchPanic: the model's input did not make the real code fail (the failed
// obligation sits behind a loop cut).  For safety obligations of functions
// that take only strings, look for a failing input directly: every tuple of
// short strings over the bytes the function compares with is run on the real
// code.  A panic found this way is a failing input of the real code; finding
// none decides nothing (the violation stands as reported by the prover).
func (rp *replayer) searchPanic() {
	fx := rp.fx
	fn := fx.root
	switch rp.o.Kind {
	case "bounds", "nil", "div", "typeassert", "panic":
	default:
		return
	}
	if fn == nil || fn.Signature.Recv() != nil || len(fn.Params) == 0 || len(fn.Params) > 2 {
		return
	}
	if spec := fx.rootSpec; spec != nil {
		for _, r := range spec.Requires {
			if r.Label == "" || strings.HasPrefix(r.Label, "safe") {
				return // inputs would have to satisfy a precondition
			}
		}
	}
	for _, p := range fn.Params {
		if b, ok := p.Type().Underlying().(*types.Basic); !ok || b.Kind() != types.String {
			return
		}
	}
	// alphabet: byte constants of the function (and of the helpers it
	// calls directly), plus a few generic ones
	seen := map[byte]bool{}
	var alpha []byte
	var literals []string
	add := func(b byte) {
		if !seen[b] && len(alpha) < 7 {
			seen[b] = true
			alpha = append(alpha, b)
		}
	}
	var scan func(f *ssa.Function, depth int)
	scan = func(f *ssa.Function, depth int) {
		for _, bl := range f.Blocks {
			for _, in := range bl.Instrs {
				for _, op := range in.Operands(nil) {
					if c, ok := (*op).(*ssa.Const); ok && c.Value != nil {
						switch c.Value.Kind() {
						case constant.Int:
							if v, ok := constant.Int64Val(c.Value); ok && v >= 32 && v < 127 {
								add(byte(v))
							}
						case constant.String:
							if lit := constant.StringVal(c.Value); len(lit) > 0 && len(lit) <= 64 && len(literals) < 12 {
								literals = append(literals, lit)
							}
							for _, ch := range []byte(constant.StringVal(c.Value)) {
								add(ch)
							}
						}
					}
				}
				if call, ok := in.(*ssa.Call); ok && depth < 1 {
					if cf := call.Call.StaticCallee(); cf != nil && inModule(cf) && len(cf.Blocks) > 0 {
						scan(cf, depth+1)
					}
				}
			}
		}
	}
	scan(fn, 0)
	for _, b := range []byte{'a', 0x80, '.', '0'} {
		add(b)
	}
	maxLen := 5
	if len(fn.Params) == 2 {
		maxLen = 3
	}
	own := fn.Pkg.Pkg
	var src strings.Builder
	fmt.Fprintf(&src, "package %s\n\nimport (\n\t\"fmt\"\n\t\"os\"\n\t\"testing\"\n)\n\n", own.Name())
	fmt.Fprintf(&src, "func TestGovcReplay(t *testing.T) {\n\talpha := []byte{%s}\n", bytesLit(func() []int64 {
		var o []int64
		for _, b := range alpha {
			o = append(o, int64(b))
		}
		return o
	}()))
	fmt.Fprintf(&src, "\tcands := []string{\"\"}\n\tprev := []string{\"\"}\n\tfor l := 1; l <= %d; l++ {\n\t\tvar cur []string\n\t\tfor _, p := range prev {\n\t\t\tfor _, c := range alpha {\n\t\t\t\tcur = append(cur, p+string([]byte{c}))\n\t\t\t}\n\t\t}\n\t\tcands = append(cands, cur...)\n\t\tprev = cur\n\t}\n", maxLen)
	// the function's own string literals and simple variations of them
	src.WriteString("\tfor _, lit := range []string{")
	for _, l := range literals {
		fmt.Fprintf(&src, "%q, ", l)
	}
	src.WriteString("} {\n\t\tcands = append(cands, lit, lit[1:], lit[:len(lit)-1], \"a\"+lit, lit+\"a\", \".\"+lit, lit+\".\", \"a.\"+lit, \"a\"+lit[1:])\n\t}\n")
	src.WriteString("\tn := 0\n\ttry := func(args ...string) (bad bool) {\n\t\tdefer func() {\n\t\t\tif r := recover(); r != nil {\n\t\t\t\tbad = true\n\t\t\t\tfmt.Fprintf(os.Stdout, \"GOVC-SEARCH-PANIC %q %v\\n\", args, r)\n\t\t\t}\n\t\t}()\n\t\tn++\n")
	if len(fn.Params) == 1 {
		fmt.Fprintf(&src, "\t\t%s(args[0])\n", fn.Name())
	} else {
		fmt.Fprintf(&src, "\t\t%s(args[0], args[1])\n", fn.Name())
	}
	src.WriteString("\t\treturn false\n\t}\n")
	if len(fn.Params) == 1 {
		src.WriteString("\tfor _, a := range cands {\n\t\tif try(a) {\n\t\t\tbreak\n\t\t}\n\t}\n")
	} else {
		src.WriteString("outer:\n\tfor _, a := range cands {\n\t\tfor _, b := range cands {\n\t\t\tif try(a, b) {\n\t\t\t\tbreak outer\n\t\t\t}\n\t\t}\n\t}\n")
	}
	src.WriteString("\tfmt.Fprintf(os.Stdout, \"GOVC-SEARCH-DONE %d\\n\", n)\n}\n")
	pkgDir := ""
	for _, p := range fx.eng.pkgs {
		if p.Types == own && len(p.GoFiles) > 0 {
			pkgDir = filepath.Dir(p.GoFiles[0])
		}
	}
	if pkgDir == "" {
		return
	}
	out := runReplayTest(repoDir(), pkgDir, src.String())
	for _, l := range strings.Split(out, "\n") {
		if strings.HasPrefix(l, "GOVC-SEARCH-PANIC ") {
			rp.doc.Verdict = "reproduced"
			rp.doc.Note = "the prover's model sits behind a loop cut; a failing input was found by running the real function on all short strings over the bytes it compares with: " + strings.TrimPrefix(l, "GOVC-SEARCH-PANIC ")
			rp.doc.Inputs = append(rp.doc.Inputs, "found by search: "+strings.TrimPrefix(l, "GOVC-SEARCH-PANIC "))
			return
		}
	}
}

// runReplayTest injects the test with -overlay and runs it.
func runReplayTest(repo, pkgDir, src string) string {
	return runReplayTestT(repo, pkgDir, src, 60)
}

// runHarness: the same for the bounded harnesses, which may run for minutes.
func runHarness(repo, pkgDir, src string) string {
	return runReplayTestT(repo, pkgDir, src, 900)
}

func runReplayTestT(repo, pkgDir, src string, timeoutS int) string {
	tmp, err := os.MkdirTemp("", "govc-replay")
	if err != nil {
		return "error: " + err.Error()
	}
	defer os.RemoveAll(tmp)
	tf := filepath.Join(tmp, "zz_govc_replay_test.go")
	os.WriteFile(tf, []byte(src), 0o644)
	ov := map[string]any{"Replace": map[string]string{filepath.Join(pkgDir, "zz_govc_replay_test.go"): tf}}
	ovb, _ := json.Marshal(ov)
	ovf := filepath.Join(tmp, "overlay.json")
	os.WriteFile(ovf, ovb, 0o644)
	cmd := exec.Command("bash", "-c", fmt.Sprintf("ulimit -v 8000000; go test -overlay %s -vet=off -count=1 -timeout %ds -run '^TestGovcReplay$' -v .", ovf, timeoutS))
	cmd.Dir = pkgDir
	cmd.Env = goEnv()
	var buf bytes.Buffer
	cmd.Stdout = &buf
	cmd.Stderr = &buf
	cmd.Run()
	var keep []string
	for _, l := range strings.Split(buf.String(), "\n") {
		if strings.HasPrefix(l, "GOVC-") || strings.Contains(l, "panic:") || strings.Contains(l, "timed out") || strings.HasPrefix(l, "FAIL") || strings.Contains(l, "cannot") || strings.Contains(l, "undefined") {
			keep = append(keep, l)
		}
	}
	return strings.Join(keep, "\n")
}

var resultLine = regexp.MustCompile(`^GOVC-RESULT (\S+) (\S+) ?(.*)$`)

// judge decides whether the observed behaviour violates the obligation.
func (rp *replayer) judge(out string) {
	o := rp.o
	if rp.unfaithful != "" {
		rp.doc.Verdict = "not-reproduced"
		rp.doc.Note = "the model's input could not be rebuilt faithfully (" + rp.unfaithful + "); the behaviour of the real code on the approximated input is not used as evidence"
		return
	}
	panicked := strings.Contains(out, "GOVC-PANIC") || strings.Contains(out, "panic:")
	timedOut := strings.Contains(out, "timed out")
	switch o.Kind {
	case "bounds", "nil", "panic", "typeassert", "div", "requires":
		if panicked {
			rp.doc.Verdict = "reproduced"
			return
		}
		if rp.postconditionBroken(out) {
			return
		}
		rp.doc.Verdict = "not-reproduced"
		rp.doc.Note = "the real code returned normally on the model input (the failed obligation sits behind a loop cut or a callee contract, so the model state need not be reachable from this input)"
	case "variant":
		if timedOut {
			rp.doc.Verdict = "reproduced"
			return
		}
		rp.doc.Verdict = "not-reproduced"
	case "ensures":
		if panicked {
			rp.doc.Verdict = "reproduced"
			rp.doc.Note = "the call panicked, so no postcondition holds"
			return
		}
		if !strings.Contains(out, "GOVC-RETURNED") {
			rp.doc.Verdict = "not-reproduced"
			rp.doc.Note = "replay did not complete"
			return
		}
		ok, msg := rp.clauseOnObserved(out)
		rp.doc.ClauseCheck = msg
		if !ok {
			rp.doc.Verdict = "reproduced"
		} else {
			rp.doc.Verdict = "not-reproduced"
		}
	default:
		if panicked {
			rp.doc.Verdict = "reproduced"
			rp.doc.Note = "the call panicked on the model input"
			return
		}
		if rp.postconditionBroken(out) {
			return
		}
		rp.doc.Verdict = "not-reproduced"
	}
}

// postconditionBroken: the failed obligation is not a postcondition, but the
// model's input may still make the real function break one.
func (rp *replayer) postconditionBroken(out string) bool {
	if rp.fx.root == nil || !valueOnly(rp.fx.root) || !strings.Contains(out, "GOVC-RETURNED") {
		return false
	}
	ok, msg := rp.clausesOnObserved(out, true)
	rp.doc.ClauseCheck = msg
	if !ok {
		rp.doc.Verdict = "reproduced"
		rp.doc.Note = "found through the model of " + rp.o.Name + ": " + msg
		return true
	}
	return false
}

// clauseOnObserved evaluates the violated ensures clause on the concrete
// inputs and the results observed from the real code, using the same
// encoding (everything is pinned to constants, so the query is ground).
func (rp *replayer) clauseOnObserved(out string) (holds bool, msg string) {
	return rp.clausesOnObserved(out, false)
}

// valueOnly: every parameter and result is a value the replay pins completely
// (numbers, booleans, strings, byte arrays, netip.Addr): only then does a
// clause evaluated on the observed behaviour mean something.
func valueOnly(fn *ssa.Function) bool {
	ok := func(t types.Type) bool {
		sh := shapeOf(t)
		switch sh.kind {
		case KInt, KBool, KStr, KArr:
			return true
		case KOpaque:
			return sh.key == "net/netip.Addr"
		}
		return false
	}
	for _, p := range fn.Params {
		if !ok(p.Type()) {
			return false
		}
	}
	res := fn.Signature.Results()
	for i := 0; i < res.Len(); i++ {
		if !ok(res.At(i).Type()) {
			if types.Identical(res.At(i).Type(), types.Universe.Lookup("error").Type()) {
				continue
			}
			return false
		}
	}
	return true
}

// clausesOnObserved: with all == false the violated ensures clause, with
// all == true every ensures clause of the contract (used when the failed
// obligation is not itself a postcondition: an input on which the real
// function breaks any postcondition of its contract is a failing input).
func (rp *replayer) clausesOnObserved(out string, all bool) (holds bool, msg string) {
	fx := rp.fx
	fn := fx.root
	o := rp.o
	// pin inputs to their model values, results to the observed values
	var pins []T
	for i := range fn.Params {
		v := fx.entryParams[i].v
		pins = append(pins, rp.pinToModel(v)...)
	}
	resVals := map[string]Val{}
	results := fn.Signature.Results()
	lines := map[string][]string{}
	for _, l := range strings.Split(out, "\n") {
		if m := resultLine.FindStringSubmatch(l); m != nil {
			lines[m[1]] = []string{m[2], m[3]}
		}
	}
	post := map[string]CV{}
	for i := 0; i < results.Len(); i++ {
		sh := shapeOf(results.At(i).Type())
		v := freshVal(fx.decls, sh, "obs")
		obs := lines[fmt.Sprintf("result%d", i)]
		if obs == nil {
			return true, "result not observed"
		}
		switch sh.kind {
		case KBool:
			pins = append(pins, eq(v.t(), obs[1]))
		case KInt:
			n, err := strconv.ParseInt(obs[1], 10, 64)
			if err != nil {
				return true, "unparsable integer result"
			}
			pins = append(pins, eq(v.t(), num(n)))
		case KStr:
			var bs []byte
			fmt.Sscanf(obs[1], "%x", &bs)
			pins = append(pins, eq(v.strOff(), "0"), eq(v.strLen(), num(int64(len(bs)))))
			for k, b := range bs {
				pins = append(pins, eq(sel(v.strArr(), num(int64(k))), num(int64(b))))
			}
		case KIface:
			if obs[0] == "nil" {
				pins = append(pins, eq(v.ifTyp(), "0"), eq(v.ifBox(), "0"))
			} else {
				tid := int64(900000)
				fields := strings.Fields(obs[1])
				if len(fields) > 0 {
					for _, ty := range fx.eng.tids.typs {
						if types.TypeString(ty, func(p *types.Package) string { return p.Name() }) == fields[0] {
							tid = int64(fx.eng.tids.id(ty))
						}
					}
				}
				pins = append(pins, eq(v.ifTyp(), num(tid)))
			}
		default:
			return true, "result of type " + sh.key + " cannot be pinned; clause not re-evaluated"
		}
		n := results.At(i).Name()
		if n == "" || n == "_" {
			n = fmt.Sprintf("result%d", i)
		}
		resVals[n] = v
		post[n] = cvOf(v)
		if results.Len() == 1 {
			post["result"] = cvOf(v)
		}
	}
	spec := fx.rootSpec
	if spec == nil {
		return true, "no contract"
	}
	var clauses []*Clause
	// (the name carries "#k" for the k-th return point)
	oname := o.Name
	if i := strings.LastIndex(oname, "#"); i > strings.LastIndex(oname, "/") {
		oname = oname[:i]
	}
	for i := range spec.Ensures {
		c := spec.Ensures[i]
		if all || strings.HasSuffix(oname, "/ensures/"+clauseName(c, i)) {
			clauses = append(clauses, &spec.Ensures[i])
		}
	}
	if len(clauses) == 0 {
		return true, "clause not found"
	}
	undecided := false
	for _, clause := range clauses {
		st, ok := rp.evalClauseOnObserved(clause, post, pins)
		switch {
		case !ok:
			undecided = true
		case st == "sat":
			if all {
				return false, "postcondition '" + clause.Label + "' of the contract is FALSE on the observed behaviour of the real code"
			}
			return false, "the clause is FALSE on the observed behaviour of the real code"
		case st != "unsat":
			undecided = true
		}
	}
	if undecided {
		return true, "clause evaluation undecided"
	}
	return true, "the clause holds on the observed behaviour of the real code"
}

func (rp *replayer) evalClauseOnObserved(clause *Clause, post map[string]CV, pins []T) (status string, ok bool) {
	fx := rp.fx
	fn := fx.root
	defer func() {
		if r := recover(); r != nil {
			if _, isU := r.(unsupported); isU {
				status, ok = "", false
				return
			}
			panic(r)
		}
	}()
	init := &State{guard: "true", cells: map[*Cell]Val{}, heaps: map[string]T{}, alloc: "0"}
	vars := map[string]CV{}
	for k, v := range post {
		vars[k] = v
	}
	env := &Env{fx: fx, vars: vars, st: init, old: init, bound: map[string]bool{}}
	if fn.Pkg != nil {
		env.pkg = fn.Pkg.Pkg
	}
	for i, p := range fn.Params {
		if _, shadow := env.vars[p.Name()]; !shadow {
			env.vars[p.Name()] = cvOf(fx.entryParams[i].v)
		}
	}
	t := env.eval(clause.E).asBool()
	var b strings.Builder
	b.WriteString(fx.eng.prelude)
	b.WriteString(fx.decls.Text())
	// spec-function axiom instances and string constants created so far
	for _, a := range fx.assumes {
		if strings.HasPrefix(a, "(=> ") {
			continue // path facts of the symbolic run are not used
		}
		if isGroundDefinition(a) {
			b.WriteString("(assert " + a + ")\n")
		}
	}
	for _, p := range pins {
		b.WriteString("(assert " + p + ")\n")
	}
	b.WriteString("(assert (not " + t + "))\n")
	res := runSolversText(b.String(), 20, nil)
	return res.Status, true
}

// isGroundDefinition keeps only assumptions that define string constants or
// instantiate spec-function postconditions (they carry no path guard).
func isGroundDefinition(a T) bool {
	return strings.HasPrefix(a, "(and (= (select |str!") || strings.HasPrefix(a, "(= (select |str!")
}

// pinToModel returns equalities fixing every component of v (and the bytes of
// strings/arrays) to its model value.
func (rp *replayer) pinToModel(v Val) []T {
	var pins []T
	switch v.sh.kind {
	case KInt, KBool:
		vals := rp.getValues([]T{v.t()})
		pins = append(pins, eq(v.t(), vals[v.t()]))
	case KStr:
		n := rp.intOf(v.strLen())
		off := rp.intOf(v.strOff())
		pins = append(pins, eq(v.strLen(), num(n)), eq(v.strOff(), num(off)))
		var ts []T
		for i := int64(0); i < n; i++ {
			ts = append(ts, sel(v.strArr(), add(v.strOff(), num(i))))
		}
		bs := rp.intsOf(ts)
		for i, b := range bs {
			pins = append(pins, eq(sel(v.strArr(), num(off+int64(i))), num(b)))
		}
	case KArr:
		var ts []T
		for i := int64(0); i < v.sh.n; i++ {
			ts = append(ts, sel(v.ts[0], num(i)))
		}
		bs := rp.intsOf(ts)
		for i, b := range bs {
			pins = append(pins, eq(sel(v.ts[0], num(int64(i))), num(b)))
		}
	case KOpaque:
		if v.sh.key == "net/netip.Addr" {
			init := &State{guard: "true", cells: map[*Cell]Val{}, heaps: map[string]T{}, alloc: "0"}
			env := &Env{fx: rp.fx, vars: map[string]CV{"a": cvOf(v)}, st: init, bound: map[string]bool{"x": true}}
			var ts []T
			for _, src := range []string{"addrValid(a)", "addrIs4(a)"} {
				e, _ := parseExpr(src)
				ts = append(ts, env.eval(e).asBool())
			}
			for i := 0; i < 16; i++ {
				e, _ := parseExpr(fmt.Sprintf("addrByte(a, %d)", i))
				ts = append(ts, env.eval(e).asInt())
			}
			vals := rp.getValues(ts)
			for _, t := range ts {
				pins = append(pins, eq(t, vals[t]))
			}
		}
	}
	return pins
}

// cmdReplay re-runs the test stored in a replay file.
func cmdReplay(args []string) int {
	if len(args) < 1 {
		fmt.Fprintln(os.Stderr, "usage: govc replay <file>")
		return 2
	}
	b, err := os.ReadFile(args[0])
	if err != nil {
		fmt.Fprintln(os.Stderr, err)
		return 2
	}
	var doc replayDoc
	if err := json.Unmarshal(b, &doc); err != nil {
		fmt.Fprintln(os.Stderr, err)
		return 2
	}
	fmt.Printf("obligation: %s\nverdict at check time: %s\n", doc.Obligation, doc.Verdict)
	for _, in := range doc.Inputs {
		fmt.Println("input:", in)
	}
	if doc.TestSource == "" {
		fmt.Println("no concrete input was produced for this obligation:", doc.Note)
		return 1
	}
	out := runReplayTest(repoDir(), doc.PkgDir, doc.TestSource)
	fmt.Println(out)
	if doc.ClauseCheck != "" {
		fmt.Println("clause:", doc.Clause, "—", doc.ClauseCheck)
	}
	return 1
}

var _ = ssa.NaiveForm
