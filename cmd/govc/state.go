package main

// Symbolic state: tracked local cells, SMT heaps, allocation counter.

import (
	"fmt"
	"go/token"
	"go/types"
	"sort"
	"strings"

	"golang.org/x/tools/go/ssa"
)

// Cell is a tracked memory cell: a local Alloc of one (possibly inlined)
// frame, or a ghost cell (range iterator position, defer flag, ...).
type Cell struct {
	name  string
	sh    *Shape
	alloc *ssa.Alloc
	id    int
	// ghost cells exist on every path: where no value was recorded they hold
	// their initial value
	ghostInit *Val
}

type State struct {
	guard T
	cells map[*Cell]Val
	heaps map[string]T
	alloc T // allocation counter
}

func (s *State) clone() *State {
	n := &State{guard: s.guard, alloc: s.alloc, cells: make(map[*Cell]Val, len(s.cells)), heaps: make(map[string]T, len(s.heaps))}
	for k, v := range s.cells {
		n.cells[k] = v
	}
	for k, v := range s.heaps {
		n.heaps[k] = v
	}
	return n
}

// Obligation is one proof goal.
type Obligation struct {
	Name    string
	Kind    string // ensures, requires, bounds, nil, invariant, variant, panic, assert, typeassert, div, lemma, frame
	Guard   T
	Cond    T
	Pos     token.Position
	NAssume int // number of assumptions (prefix of Engine.assumes) in force
	Func    string
	Clause  string // contract clause label/source when it stems from one
	Short   bool   // listed as an open known finding: it is expected to fail, so it gets a short budget
	Using   []string // when non-nil: the labelled hypotheses this obligation's query keeps
	Tainted bool   // generated after a loop clause failed to bind: a failure is undecided, not a violation
	// filled by discharge
	Result SolverResult
	Query  string
}

// FnCtx is the verification context of one function under contract: all
// obligations, assumptions and declarations generated from it.
type FnCtx struct {
	frameStack []*Frame // frames being executed, innermost last
	loopsExpected bool // the root contract has loop clauses but the root function has no loop
	defineByEnsures bool // bounded search: bodyless spec fns with "result <==> E" evaluate as E
	curLabel    string
	assumeLabel map[int]string
	embDeclared bool
	bindLoopHeaps map[string]bool // (sanitized) heaps modified by loops whose contract no longer binds
	bindErrors []string // contract clauses that no longer bind to the code (reported as UNDECIDED; other obligations are still generated)
	rootLets map[string]CV // `def` names of the contract under verification
	reveal map[string]bool // hidden spec functions whose definitions are visible (lemma proofs)
	touchedGhost map[string]bool // when non-nil: names of ghost cells touched (havocGhostsForCall)
	frame *frameInfo // modifies clause of the function under verification (nil: no frame check)
	eng     *Engine
	root    *ssa.Function
	decls   *Decls
	assumes []T
	obls    []*Obligation
	oblSeq  map[string]int
	ncell   int
	depth   int
	// bookkeeping for evidence
	inlined      map[string]bool
	usedSpecs    map[string]bool
	usedSpecFns  map[string]bool
	unsupported  []string
	entryParams  []namedVal // for model extraction / replay
	constBoxes   map[string]T
	strConsts    map[string]T
	specFnState  map[string]int // 0 none, 1 in progress, 2 emitted
	cover        []*Obligation  // reachability probes (expected sat)
	callStack    []string
	rootSpec     *FuncSpec
	loopCounter  map[*ssa.Function]map[*ssa.BasicBlock]int
	trustedCalls map[string]bool
	heapSorts    map[string]string
	strConstVals map[string]string
	constBoxInfo map[string]constBoxInfo
	sfInst       map[string]bool
	panicking    *Val
	notes        map[string]bool
	ghost        map[string]*Cell
	lemmaName    string
	onceSeen     map[T]bool
	hypMode      bool // contract expressions are being evaluated as assumptions
	rootFrame    *Frame
	rootRets     []retPoint
	defs         map[T]T
	usedLemmas   []string
	lemmaStates  map[string]*State
}

// ghostCell returns the ghost cell with the given name, creating it (with the
// given initial value in st) on first use.
func (fx *FnCtx) ghostCell(st *State, name string, sh *Shape, init Val) *Cell {
	if fx.ghost == nil {
		fx.ghost = map[string]*Cell{}
	}
	if fx.touchedGhost != nil {
		fx.touchedGhost[name] = true
	}
	c, ok := fx.ghost[name]
	if !ok {
		c = fx.newCell("$"+name, sh, nil)
		fx.ghost[name] = c
		iv := init
		if sh.kind == KArr {
			// sequence logs start from the given (arbitrary) array
		} else if sh.kind != KInt || init.ts[0] != "0" {
			// "no call recorded yet": an arbitrary value
			iv = freshVal(fx.decls, sh, "ghost0")
		}
		c.ghostInit = &iv
	}
	if _, live := st.cells[c]; !live {
		st.cells[c] = init
	}
	return c
}

type namedVal struct {
	name string
	v    Val
}

func (fx *FnCtx) assume(guard, fact T) {
	f := imp(guard, fact)
	if f == "true" {
		return
	}
	if fx.curLabel != "" {
		if fx.assumeLabel == nil {
			fx.assumeLabel = map[int]string{}
		}
		fx.assumeLabel[len(fx.assumes)] = fx.curLabel
	}
	fx.assumes = append(fx.assumes, f)
}

// labelled runs f with every assumption it adds tagged with label (for the
// `using` clause of ensures).
func (fx *FnCtx) labelled(label string, f func()) {
	old := fx.curLabel
	if label != "" {
		fx.curLabel = label
	}
	defer func() { fx.curLabel = old }()
	f()
}

// assumeOnce adds an unguarded fact unless the same text is already there.
func (fx *FnCtx) assumeOnce(t T) {
	if t == "true" {
		return
	}
	if fx.onceSeen == nil {
		fx.onceSeen = map[T]bool{}
	}
	if fx.onceSeen[t] {
		return
	}
	fx.onceSeen[t] = true
	fx.assumes = append(fx.assumes, t)
}

func (fx *FnCtx) define(hint, sort string, t T) T {
	// small terms are not worth a definition
	if len(t) < 40 {
		return t
	}
	c := fx.decls.Fresh(hint, sort)
	fx.assumes = append(fx.assumes, eq(c, t))
	if fx.defs == nil {
		fx.defs = map[T]T{}
	}
	fx.defs[c] = t
	return c
}

// splitStore recognises "(store A I V)" and returns its three arguments.
func splitStore(t T) (a, i, v T, ok bool) {
	if !strings.HasPrefix(t, "(store ") || !strings.HasSuffix(t, ")") {
		return
	}
	body := t[len("(store ") : len(t)-1]
	var parts []T
	depth, start, inBar := 0, 0, false
	for k := 0; k < len(body); k++ {
		switch c := body[k]; {
		case c == '|':
			inBar = !inBar
		case inBar:
		case c == '(':
			depth++
		case c == ')':
			depth--
		case c == ' ' && depth == 0:
			parts = append(parts, body[start:k])
			start = k + 1
		}
	}
	parts = append(parts, body[start:])
	if len(parts) != 3 {
		return
	}
	return parts[0], parts[1], parts[2], true
}

// selHeap reads index i of array term a, resolving reads over writes to the
// syntactically same index (and skipping writes to a different freshly
// allocated reference) through the definitions introduced so far.
func (fx *FnCtx) selHeap(a, i T) T {
	cur := a
	for n := 0; n < 64; n++ {
		t := cur
		if d, ok := fx.defs[cur]; ok {
			t = d
		}
		base, idx, val, ok := splitStore(t)
		if !ok {
			break
		}
		if idx == i {
			return val
		}
		if distinctRefs(idx, i) {
			cur = base
			continue
		}
		break
	}
	return sel(cur, i)
}

// distinctRefs: two different constants produced by allocation (|ref_...|)
// denote different references.
func distinctRefs(a, b T) bool {
	return a != b && strings.HasPrefix(a, "|ref_") && strings.HasPrefix(b, "|ref_") && !strings.Contains(a, " ") && !strings.Contains(b, " ")
}

func (fx *FnCtx) oblige(kind, name string, st *State, cond T, pos token.Pos, clause string) *Obligation {
	if fx.oblSeq == nil {
		fx.oblSeq = map[string]int{}
	}
	full := name
	fx.oblSeq[full]++
	if n := fx.oblSeq[full]; n > 1 || strings.HasSuffix(full, "#") {
		full = fmt.Sprintf("%s%d", strings.TrimSuffix(full, "#")+"#", n)
	}
	o := &Obligation{Name: full, Kind: kind, Guard: st.guard, Cond: cond, NAssume: len(fx.assumes), Func: fx.rootName(), Clause: clause}
	// after a loop clause failed to bind, what is proved or not proved says
	// nothing about the code - except that the state before that loop keeps
	// the frame
	if len(fx.bindErrors) > 0 && !strings.Contains(full, "/inv_established/auto_frame/") {
		o.Tainted = true
		// a frame condition on a heap that no such loop writes does not
		// depend on the lost invariants
		if kind == "frame" {
			if i := strings.LastIndex(full, "/frame/"); i >= 0 && !fx.bindLoopHeaps[full[i+7:]] {
				o.Tainted = false
			}
		}
	}
	if pos.IsValid() {
		o.Pos = fx.eng.prog.Fset.Position(pos)
	}
	if cond == "true" || st.guard == "false" {
		// trivially discharged; still counted so that evidence reflects it
		o.Result = SolverResult{Status: "unsat", Solver: "trivial"}
	}
	fx.obls = append(fx.obls, o)
	// later obligations may assume this one (not the limits of an assumed
	// contract's model: those are not facts about the program)
	if kind != "model" {
		lbl := ""
		switch kind {
		case "ensures", "invariant", "frame", "requires":
			// (safety obligations stay unlabelled: always available)
			lbl = strings.TrimSuffix(name, "#")
			if i := strings.LastIndex(lbl, "/"); i >= 0 {
				lbl = lbl[i+1:]
			}
			if kind == "frame" {
				lbl = "frame"
			}
		}
		fx.labelled(lbl, func() { fx.assume(st.guard, cond) })
	}
	return o
}

// hyp evaluates f with quantified facts rendered for use as assumptions.
func (fx *FnCtx) hyp(f func() T) T {
	old := fx.hypMode
	fx.hypMode = true
	defer func() { fx.hypMode = old }()
	return f()
}

func (fx *FnCtx) rootName() string {
	if fx.root != nil {
		return fx.root.String()
	}
	return fx.lemmaName
}

// query builds the SMT text for an obligation.
func (fx *FnCtx) query(o *Obligation) string {
	var as strings.Builder
	for i, a := range fx.assumes[:o.NAssume] {
		if o.Using != nil {
			if l, ok := fx.assumeLabel[i]; ok && !contains(o.Using, l) {
				continue
			}
		}
		as.WriteString("(assert ")
		as.WriteString(a)
		as.WriteString(")\n")
	}
	as.WriteString("(assert (not ")
	as.WriteString(imp(o.Guard, o.Cond))
	as.WriteString("))\n")
	var b strings.Builder
	b.WriteString(fx.eng.prelude)
	b.WriteString(fx.decls.TextFor(as.String()))
	b.WriteString(as.String())
	return b.String()
}

// ---------------------------------------------------------------------------
// Heaps

func heapName(sh *Shape, comp int) string {
	if sh.kind == KArr {
		return fmt.Sprintf("E|%s|%d", sh.elem.key, comp)
	}
	return fmt.Sprintf("O|%s|%d", sh.key, comp)
}

func heapSort(sh *Shape, comp int) string {
	return arrSort(sh.sorts()[comp])
}

func (fx *FnCtx) heapTerm(st *State, name, sort string) T {
	fx.heapSorts[name] = sort
	if t, ok := st.heaps[name]; ok {
		return t
	}
	// initial heap: one shared constant per name
	c := "|H0:" + sanitize(name) + "|"
	fx.decls.Raw(fmt.Sprintf("(declare-fun %s () %s)", c, sort))
	return c
}

// loadObj reads a whole object of shape sh at ref.
func (fx *FnCtx) loadObj(st *State, sh *Shape, ref T) Val {
	n := sh.ncomp()
	ts := make([]T, n)
	for c := 0; c < n; c++ {
		ts[c] = fx.selHeap(fx.heapTerm(st, heapName(sh, c), heapSort(sh, c)), ref)
	}
	v := Val{sh: sh, ts: ts}
	return v
}

func (fx *FnCtx) storeObjComps(st *State, sh *Shape, ref T, lo int, ts []T) {
	for i, t := range ts {
		c := lo + i
		name := heapName(sh, c)
		h := fx.heapTerm(st, name, heapSort(sh, c))
		st.heaps[name] = fx.define("h", heapSort(sh, c), store(h, ref, t))
	}
}

func (fx *FnCtx) newRef(st *State, hint string) T {
	r := fx.decls.Fresh("ref_"+hint, sInt)
	fx.assumes = append(fx.assumes, eq(r, add(st.alloc, "1")))
	st.alloc = r
	return r
}

// ---------------------------------------------------------------------------
// Merging

type edgeState struct {
	cond T // full condition of taking this edge (includes source guard)
	st   *State
}

// merge joins the states arriving at a block.
func (fx *FnCtx) merge(hint string, ins []edgeState) *State {
	var live []edgeState
	for _, e := range ins {
		if e.cond != "false" {
			live = append(live, e)
		}
	}
	if len(live) == 0 {
		return &State{guard: "false", cells: map[*Cell]Val{}, heaps: map[string]T{}, alloc: "0"}
	}
	if len(live) == 1 {
		s := live[0].st.clone()
		s.guard = fx.defineBool(hint, live[0].cond)
		return s
	}
	out := &State{cells: map[*Cell]Val{}, heaps: map[string]T{}}
	conds := make([]T, len(live))
	for i, e := range live {
		conds[i] = e.cond
	}
	out.guard = fx.defineBool(hint, or(conds...))
	// cells: union of keys
	keys := map[*Cell]bool{}
	for _, e := range live {
		for k := range e.st.cells {
			keys[k] = true
		}
	}
	var ks []*Cell
	for k := range keys {
		ks = append(ks, k)
	}
	sort.Slice(ks, func(i, j int) bool { return ks[i].id < ks[j].id })
	for _, k := range ks {
		var vals []Val
		okAll := true
		for _, e := range live {
			v, ok := e.st.cells[k]
			if !ok && k.ghostInit != nil {
				v, ok = *k.ghostInit, true
			}
			if !ok {
				okAll = false
				break
			}
			vals = append(vals, v)
		}
		if !okAll {
			continue // cell not live on all paths: dead after the join
		}
		out.cells[k] = fx.mergeVals(k.name, conds, vals)
	}
	hk := map[string]bool{}
	for _, e := range live {
		for k := range e.st.heaps {
			hk[k] = true
		}
	}
	for _, k := range sortedKeys(hk) {
		var ts []T
		for _, e := range live {
			t, ok := e.st.heaps[k]
			if !ok {
				t = "|H0:" + sanitize(k) + "|"
				if so := fx.heapSorts[k]; so != "" {
					fx.decls.Raw(fmt.Sprintf("(declare-fun %s () %s)", t, so))
				}
			}
			ts = append(ts, t)
		}
		out.heaps[k] = fx.mergeTerms("h", fx.heapSorts[k], conds, ts)
	}
	var as []T
	for _, e := range live {
		as = append(as, e.st.alloc)
	}
	out.alloc = fx.mergeTerms("alloc", sInt, conds, as)
	return out
}

func (fx *FnCtx) defineBool(hint string, t T) T {
	if len(t) < 60 {
		return t
	}
	c := fx.decls.Fresh("g_"+hint, sBool)
	fx.assumes = append(fx.assumes, eq(c, t))
	return c
}

func (fx *FnCtx) mergeTerms(hint, sort string, conds []T, ts []T) T {
	same := true
	for _, t := range ts[1:] {
		if t != ts[0] {
			same = false
		}
	}
	if same {
		return ts[0]
	}
	t := ts[len(ts)-1]
	for i := len(ts) - 2; i >= 0; i-- {
		t = ite(conds[i], ts[i], t)
	}
	if sort == "" {
		return t // heap arrays: keep inline (sort unknown here)
	}
	return fx.define(hint, sort, t)
}

func (fx *FnCtx) mergeVals(hint string, conds []T, vals []Val) Val {
	out := vals[len(vals)-1]
	for i := len(vals) - 2; i >= 0; i-- {
		out = iteVal(conds[i], vals[i], out)
	}
	so := out.sh.sorts()
	for i := range out.ts {
		out.ts[i] = fx.define(hint, so[i], out.ts[i])
	}
	return out
}

// ---------------------------------------------------------------------------
// Type ids

type typeIDs struct {
	ids  map[string]int
	typs []types.Type
}

func (ti *typeIDs) id(t types.Type) int {
	k := typeKey(t)
	if id, ok := ti.ids[k]; ok {
		return id
	}
	id := len(ti.ids) + 1
	ti.ids[k] = id
	ti.typs = append(ti.typs, t)
	return id
}
