package main

// C06: the oracle is generated on every run from the documentation comments
// of IsLocallyServed / IsSpecialPurpose in the current source.

import (
	"fmt"
	"go/ast"
	"net/netip"
	"regexp"
	"strings"
)

var prefixLine = regexp.MustCompile(`^\s*([0-9a-fA-F:.]+/[0-9]+)(\s|$)`)

func docPrefixes(eng *Engine, pkgPath, fn string) ([]netip.Prefix, error) {
	for _, p := range eng.pkgs {
		if p.PkgPath != pkgPath {
			continue
		}
		for _, f := range p.Syntax {
			for _, d := range f.Decls {
				fd, ok := d.(*ast.FuncDecl)
				if !ok || fd.Name.Name != fn || fd.Recv != nil || fd.Doc == nil {
					continue
				}
				var out []netip.Prefix
				for _, line := range strings.Split(fd.Doc.Text(), "\n") {
					m := prefixLine.FindStringSubmatch(line)
					if m == nil {
						continue
					}
					pf, err := netip.ParsePrefix(m[1])
					if err != nil {
						return nil, fmt.Errorf("doc of %s: bad prefix %q: %v", fn, m[1], err)
					}
					out = append(out, pf)
				}
				if len(out) == 0 {
					return nil, fmt.Errorf("doc of %s lists no networks", fn)
				}
				return out, nil
			}
		}
	}
	return nil, fmt.Errorf("function %s not found in %s", fn, pkgPath)
}

// memberExpr renders "bytes lie in one of the prefixes of the family" in the
// contract language; byteAt(i) renders the i-th byte of the address.
func memberExpr(ps []netip.Prefix, v4 bool, byteAt func(i int) string) string {
	var alts []string
	for _, p := range ps {
		if p.Addr().Is4() != v4 {
			continue
		}
		var bs []byte
		if v4 {
			a := p.Addr().As4()
			bs = a[:]
		} else {
			a := p.Addr().As16()
			bs = a[:]
		}
		var cs []string
		full, rem := p.Bits()/8, p.Bits()%8
		for i := 0; i < full; i++ {
			cs = append(cs, fmt.Sprintf("%s == %d", byteAt(i), bs[i]))
		}
		if rem > 0 {
			sh := 8 - rem
			cs = append(cs, fmt.Sprintf("%s / %d == %d", byteAt(full), 1<<sh, int(bs[full])>>sh))
		}
		if len(cs) == 0 {
			cs = []string{"true"}
		}
		alts = append(alts, "("+strings.Join(cs, " && ")+")")
	}
	if len(alts) == 0 {
		return "false"
	}
	return strings.Join(alts, " || ")
}

func genC06(eng *Engine) (map[string]*FuncSpec, error) {
	out := map[string]*FuncSpec{}
	pkg := modulePrefix + "/netutil"
	mk := func(key, label, src string) error {
		e, err := parseExpr(src)
		if err != nil {
			return err
		}
		out[pkg+"."+key] = &FuncSpec{Name: key, Pkg: pkg, Loops: map[int]*LoopSpec{}, Ensures: []Clause{{Label: label, Src: src, E: e}}}
		return nil
	}
	for _, f := range []struct{ exported, v4, v6 string }{
		{"IsLocallyServed", "isLocallyServedV4", "isLocallyServedV6"},
		{"IsSpecialPurpose", "isSpecialPurposeV4", "isSpecialPurposeV6"},
	} {
		ps, err := docPrefixes(eng, pkg, f.exported)
		if err != nil {
			return nil, err
		}
		ipAt := func(i int) string { return fmt.Sprintf("ip[%d]", i) }
		if err := mk(f.v4, "doc_membership", "ok <==> ("+memberExpr(ps, true, ipAt)+")"); err != nil {
			return nil, err
		}
		if err := mk(f.v6, "doc_membership", "ok <==> ("+memberExpr(ps, false, ipAt)+")"); err != nil {
			return nil, err
		}
		a4 := func(i int) string { return fmt.Sprintf("addrByte(ip, %d)", 12+i) }
		a6 := func(i int) string { return fmt.Sprintf("addrByte(ip, %d)", i) }
		src := fmt.Sprintf("ok <==> (addrValid(ip) && (addrIs4(ip) ? (%s) : (%s)))", memberExpr(ps, true, a4), memberExpr(ps, false, a6))
		if err := mk(f.exported, "doc_membership", src); err != nil {
			return nil, err
		}
	}
	// the helpers' generated contracts are also what the exported functions
	// are checked against at their call sites
	for k, v := range out {
		if _, exists := eng.contracts.Funcs[k]; !exists {
			eng.contracts.Funcs[k] = v
		}
	}
	return out, nil
}
