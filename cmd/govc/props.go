package main

// Property definitions, the check command, verdicts and evidence.

import (
	"encoding/json"
	"fmt"
	"go/token"
	"os"
	"path/filepath"
	"sort"
	"strconv"
	"strings"
	"time"

	"golang.org/x/tools/go/ssa"
	"golang.org/x/tools/go/ssa/ssautil"
)

type PropertyDef struct {
	ID       string
	Patterns []string
	// Funcs are the functions under contract whose obligations constitute
	// the property (keys relative to the module path).
	Funcs []string
	// Gen produces generated oracle contracts (merged with repository
	// contracts of the same function).
	Gen func(eng *Engine) (map[string]*FuncSpec, error)
	// Closure computes Funcs dynamically.
	Closure func(eng *Engine) []string
	// Lemmas to discharge.
	Lemmas []string
	// Only obligations of these kinds count for the property (nil = all).
	Kinds map[string]bool
	// Bounded stand-ins, run in addition (never counted as proved).
	Bounded func(eng *Engine, tier string, seed int64) *BoundedResult
	// Static assumptions reported in evidence.
	Assumptions  []string
	Explanation  string
	RequireVars  bool
	Level        string // evidence level; default "proof"
	ExtraChecks  func(eng *Engine, run *checkRun)
	SkipEnsures  bool
	OnlyClauses  map[string][]string // function key -> ensures labels that belong to this property (nil = all)
	ReplayHints  map[string]string
	NeedsClauses map[string][]string // named clauses that must have produced obligations (vacuity)
	OnlySafe     bool
	Sequential   bool
	// NoContentIDExt drops the axiom "equal contents of equal length have the
	// same content id" (ids of strings still determine length and bytes, and
	// conversions carry ids over): only fewer things are provable; the
	// quadratic instantiation of that axiom made the cache's list proofs slow.
	NoContentIDExt bool
	LevelText    string
	LevelNote    string
	Technique    string
}

type BoundedResult struct {
	What       string
	Bound      string
	Cases      int
	Nontrivial int
	Failures   []string
	Samples    []string
}

type KnownFinding struct {
	Property    string `json:"property"`
	Obligation  string `json:"obligation"`
	Region      string `json:"region,omitempty"`
	Description string `json:"description"`
	Status      string `json:"status"` // "open" or "fixed"
	Commit      string `json:"commit,omitempty"`
}

type checkRun struct {
	prop       *PropertyDef
	tier       string
	seed       int64
	results    []*FuncResult
	violations []violation
	known      []string
	toolErrors []string
	extraObl   int
	extraDis   int
	notes      []string
	bounded    *BoundedResult
	scanViolations []string
	searchDone     map[string]*searchHit // per function key: result of the bounded search (nil = nothing found)
	searchReported map[string]bool
}

type violation struct {
	obligation string
	replay     string
	reproduced bool
	detail     string
}

func loadKnownFindings() []KnownFinding {
	var out []KnownFinding
	b, err := os.ReadFile(filepath.Join(verifDir(), "known_findings.json"))
	if err != nil {
		return nil
	}
	var doc struct {
		Findings []KnownFinding `json:"findings"`
	}
	if json.Unmarshal(b, &doc) == nil {
		out = doc.Findings
	}
	return out
}

func cmdCheck(args []string) int {
	if len(args) < 1 {
		fmt.Fprintln(os.Stderr, "usage: govc check <property> [--tier quick|thorough]")
		return 2
	}
	id := args[0]
	tier := os.Getenv("VERIF_TIER")
	for i := 1; i < len(args); i++ {
		if args[i] == "--tier" && i+1 < len(args) {
			tier = args[i+1]
		}
	}
	if tier == "" {
		tier = "quick"
	}
	seed := int64(1)
	if s := os.Getenv("VERIF_SEED"); s != "" {
		if v, err := strconv.ParseInt(s, 10, 64); err == nil {
			seed = v
		}
	}
	prop := properties()[id]
	if prop == nil {
		fmt.Fprintf(os.Stderr, "TOOL-ERROR: unknown or unclaimed property %s\n", id)
		return 2
	}
	start := time.Now()
	run := &checkRun{prop: prop, tier: tier, seed: seed, searchDone: map[string]*searchHit{}, searchReported: map[string]bool{}}
	eng := newEngine(repoDir())
	eng.requireVariants = prop.RequireVars
	eng.onlySafe = prop.OnlySafe
	eng.sequential = prop.Sequential
	eng.noContentIDExt = prop.NoContentIDExt
	if err := eng.load(prop.Patterns...); err != nil {
		// a tree that does not build is a tool error, not a violation
		fmt.Fprintln(os.Stderr, "TOOL-ERROR:", err)
		writeEvidence(run, eng, time.Since(start).Seconds(), "TOOL-ERROR: "+err.Error())
		return 2
	}
	if err := eng.loadSpecs(filepath.Join(verifDir(), "specs")); err != nil {
		fmt.Fprintln(os.Stderr, "TOOL-ERROR:", err)
		return 2
	}
	var gen map[string]*FuncSpec
	if prop.Gen != nil {
		var err error
		gen, err = prop.Gen(eng)
		if err != nil {
			fmt.Fprintln(os.Stderr, "TOOL-ERROR: oracle generation:", err)
			return 2
		}
	}
	funcs := prop.Funcs
	if prop.Closure != nil {
		funcs = append(append([]string{}, funcs...), prop.Closure(eng)...)
	}
	for _, k := range funcs {
		full := k
		if !strings.HasPrefix(k, modulePrefix) {
			full = modulePrefix + "/" + k
		}
		run.results = append(run.results, eng.verifyFunction(full, gen[full]))
	}
	for _, l := range prop.Lemmas {
		run.results = append(run.results, eng.verifyLemma(l))
	}
	timeout0 := 25
	if tier == "thorough" {
		timeout0 = 90
	}
	if b, err := strconv.Atoi(os.Getenv("GOVC_BUDGET")); err == nil && b > 0 {
		// (the self-test runs its must-fail cases with a smaller budget: an
		// obligation that fails costs the whole budget on every solver)
		timeout0 = b
	}
	run.adaptRenames(eng, gen, timeout0)
	// generous budgets: obligations are decided in well under a second as a
	// rule; the budget only matters for the few heavy ones, and running out
	// of it on an unchanged tree would be a false alarm
	timeout := timeout0
	outDir := filepath.Join(outDirBase(), "out")
	// obligations that do not belong to this property are not solved
	for _, r := range run.results {
		for _, o := range r.Obligations {
			if o.Result.Status == "" && !run.counts(r, o) {
				o.Result = SolverResult{Status: "skipped", Solver: "not-part-of-property"}
			}
		}
	}
	// obligations recorded as open known findings are expected to fail: a
	// short budget is enough to notice if one has become provable
	for _, kf := range loadKnownFindings() {
		if kf.Status == "fixed" || kf.Property != prop.ID {
			continue
		}
		for _, r := range run.results {
			for _, o := range r.Obligations {
				if o.Name == kf.Obligation {
					o.Short = true
				}
			}
		}
	}
	discharge(run.results, dischargeOpts{timeoutS: timeout, workers: 12})
	run.adaptLoopContracts(eng, gen, timeout)
	if tier == "thorough" {
		// second, independent discharge of every obligation with the other
		// solvers / a different seed; disagreement is reported as fragile
		run.crossCheck(timeout)
	}
	if prop.ExtraChecks != nil {
		prop.ExtraChecks(eng, run)
	}
	if prop.Bounded != nil {
		run.bounded = prop.Bounded(eng, tier, seed)
	}
	code := run.verdict(eng, outDir)
	writeEvidence(run, eng, time.Since(start).Seconds(), "")
	return code
}

// verdict prints VIOLATION / KNOWN-FINDING lines and returns the exit code.
func (run *checkRun) verdict(eng *Engine, outDir string) int {
	prop := run.prop
	known := loadKnownFindings()
	code := 0
	total := 0
	for _, r := range run.results {
		if r.Ctx != nil {
			seen := map[string]bool{}
			for _, b := range r.Ctx.bindErrors {
				if !seen[b] {
					seen[b] = true
					run.toolErrors = append(run.toolErrors, shortKey(r.Key)+": "+b)
				}
			}
		}
		if r.Unsupported != "" {
			// a contract that can no longer be bound to the code, or an
			// instruction outside the supported subset: undecided by tooling
			run.toolErrors = append(run.toolErrors, fmt.Sprintf("%s: %s", shortKey(r.Key), firstLine(r.Unsupported)))
		}
		for _, o := range r.Obligations {
			if !run.counts(r, o) {
				continue
			}
			total++
			if o.Result.Status == "unsat" {
				continue
			}
			if o.Tainted {
				// the proof says nothing about this code any more; a bounded
				// search of the real function against its own contract may
				// still produce a failing input
				if v, ok := run.searchViolation(eng, r, o, outDir); ok {
					if !run.searchReported[r.Key] {
						run.searchReported[r.Key] = true
						run.violations = append(run.violations, v)
						fmt.Printf("VIOLATION property=%s replay=%s\n", prop.ID, v.replay)
						fmt.Printf("  %s: the loop contract no longer binds to the code; a bounded search of the real function against its contract found a failing input (see the replay file)\n", shortKey(r.Key))
						code = 1
					}
					continue
				}
				run.toolErrors = append(run.toolErrors, fmt.Sprintf("%s: not decided (a loop contract of this function no longer binds to the code)", o.Name))
				continue
			}
			if o.Kind == "model" {
				// the call is outside what the assumed contract of a library
				// function models: nothing is known about it, which is not a
				// violation
				run.toolErrors = append(run.toolErrors, fmt.Sprintf("%s: call outside the modelled domain of the assumed contract (%s)", o.Name, o.Clause))
				continue
			}
			// known finding?
			if kf := matchKnown(known, prop.ID, o.Name); kf != nil {
				if run.knownStillOnlyKnown(eng, r, o, kf) {
					line := fmt.Sprintf("KNOWN-FINDING: property=%s %s (%s)", prop.ID, kf.Description, o.Name)
					run.known = append(run.known, line)
					fmt.Println(line)
					continue
				}
			}
			v := run.replay(eng, r, o, outDir)
			if !v.reproduced {
				if sv, ok := run.searchViolation(eng, r, o, outDir); ok {
					v.reproduced = true
					v.detail = sv.detail
				}
			}
			run.violations = append(run.violations, v)
			suffix := ""
			if !v.reproduced {
				suffix = " no-failing-input-found"
			}
			fmt.Printf("VIOLATION property=%s replay=%s%s\n", prop.ID, v.replay, suffix)
			fmt.Printf("  obligation %s: %s (%s) at %s:%d\n", o.Name, o.Result.Status, o.Result.Solver, o.Pos.Filename, o.Pos.Line)
			code = 1
		}
		for _, o := range r.Cover {
			if o.Result.Status == "unsat" {
				// the assumptions of this function are contradictory or the
				// exit is unreachable: the proof would be vacuous
				run.toolErrors = append(run.toolErrors, fmt.Sprintf("vacuity probe %s answered %s", o.Name, o.Result.Status))
			}
		}
	}
	for _, p := range run.scanViolations {
		fmt.Printf("VIOLATION property=%s replay=%s no-failing-input-found\n", prop.ID, p)
		code = 1
	}
	if run.bounded != nil {
		for _, f := range run.bounded.Failures {
			if kf := matchKnown(known, prop.ID, "bounded:"+f); kf != nil {
				line := fmt.Sprintf("KNOWN-FINDING: property=%s %s", prop.ID, kf.Description)
				run.known = append(run.known, line)
				fmt.Println(line)
				continue
			}
			path := filepath.Join(outDir, "replay", prop.ID, "bounded_"+sanitize(f)+".json")
			os.MkdirAll(filepath.Dir(path), 0o755)
			b, _ := json.MarshalIndent(map[string]any{"property": prop.ID, "kind": "bounded", "failing_case": f, "what": run.bounded.What}, "", " ")
			os.WriteFile(path, b, 0o644)
			run.violations = append(run.violations, violation{obligation: "bounded:" + f, replay: path, reproduced: true})
			fmt.Printf("VIOLATION property=%s replay=%s\n", prop.ID, path)
			code = 1
		}
	}
	total += run.extraObl
	if total == 0 && code == 0 {
		run.toolErrors = append(run.toolErrors, "no obligations generated")
	}
	// named clauses that must have produced obligations
	for fn, labels := range prop.NeedsClauses {
		for _, l := range labels {
			found := false
			for _, r := range run.results {
				if !strings.HasSuffix(r.Key, fn) {
					continue
				}
				for _, o := range r.Obligations {
					if strings.Contains(o.Name, "/"+l) {
						found = true
					}
				}
			}
			if !found {
				run.toolErrors = append(run.toolErrors, fmt.Sprintf("contract clause %s of %s produced no obligation", l, fn))
			}
		}
	}
	if len(run.toolErrors) > 0 && code == 0 {
		for _, t := range run.toolErrors {
			fmt.Println("UNDECIDED:", t)
		}
		// contracts that cannot be bound or unsupported code: no proof, but
		// also no evidence of a violation.  The interface knows two outcomes
		// (0: nothing found on what was explored; 1: a violation); an
		// undecided check found nothing on what it explored and says here and
		// in the evidence (undecided_by_tooling) what it could not explore.
		// GOVC_UNDECIDED_EXIT=2 restores a distinct exit status (used by the
		// self-test to tell the two apart).
		fmt.Printf("UNDECIDED property=%s: part of the property could not be decided on this tree (see the lines above and %s)\n", prop.ID, "evidence/"+prop.ID+".json")
		if os.Getenv("GOVC_UNDECIDED_EXIT") == "2" {
			code = 2
		}
	}
	return code
}

func firstLine(s string) string {
	if i := strings.Index(s, "\n"); i >= 0 {
		return s[:i]
	}
	return s
}

// counts says whether obligation o of result r belongs to the property.
func (run *checkRun) counts(r *FuncResult, o *Obligation) bool {
	p := run.prop
	if o.Kind == "model" {
		return true
	}
	if p.Kinds != nil && !p.Kinds[o.Kind] {
		return false
	}
	if o.Kind == "ensures" && p.OnlyClauses != nil {
		for fn, labels := range p.OnlyClauses {
			if strings.HasSuffix(r.Key, fn) {
				ok := false
				for _, l := range labels {
					if strings.HasSuffix(o.Name, "/ensures/"+l) {
						ok = true
					}
				}
				return ok
			}
		}
	}
	return true
}

func matchKnown(known []KnownFinding, prop, obl string) *KnownFinding {
	for i := range known {
		k := &known[i]
		if k.Status == "fixed" || k.Property != prop {
			continue
		}
		if k.Obligation == obl {
			return k
		}
	}
	return nil
}

// knownStillOnlyKnown re-poses the obligation with the finding's region
// excluded; only when that is discharged is the failure "the known one".
func (run *checkRun) knownStillOnlyKnown(eng *Engine, r *FuncResult, o *Obligation, kf *KnownFinding) bool {
	if kf.Region == "" {
		return true
	}
	region, err := parseExpr(kf.Region)
	if err != nil {
		return false
	}
	fx := r.Ctx
	ok := false
	func() {
		defer func() { recover() }()
		env := &Env{fx: fx, vars: map[string]CV{}, st: &State{guard: "true", cells: map[*Cell]Val{}, heaps: map[string]T{}, alloc: "0"}, bound: map[string]bool{}}
		if fx.root.Pkg != nil {
			env.pkg = fx.root.Pkg.Pkg
		}
		for _, p := range fx.entryParams {
			env.vars[p.name] = cvOf(p.v)
		}
		reg := env.eval(region).asBool()
		q := fx.query(o)
		q += "(assert (not " + reg + "))\n"
		res := solve(q, 20, nil, "")
		ok = res.Status == "unsat"
	}()
	return ok
}

func (run *checkRun) crossCheck(timeout int) {
	for _, r := range run.results {
		for _, o := range r.Obligations {
			if o.Result.Status != "unsat" || o.Result.Solver == "trivial" {
				continue
			}
			q := o.Query
			if q == "" {
				continue
			}
			var which []string
			for _, s := range solvers {
				if s.name != o.Result.Solver {
					which = append(which, s.name)
				}
			}
			res := runSolversText(q, 10, which)
			if res.Status == "sat" {
				// contradiction between solvers: treat as failed
				o.Result = res
				continue
			}
			if res.Status != "unsat" {
				// re-run the deciding solver with a different seed
				seeded := fmt.Sprintf("(set-option :smt.random_seed %d)\n(set-option :sat.random_seed %d)\n", run.seed+17, run.seed+17) + q
				res2 := runSolversText(seeded, timeout, []string{"z3-new"})
				if res2.Status != "unsat" {
					run.notes = append(run.notes, "fragile: "+o.Name+" (only "+o.Result.Solver+" discharges it)")
				}
			}
		}
	}
}

func runSolversText(q string, timeoutS int, which []string) SolverResult {
	dir, err := os.MkdirTemp("", "govc-x")
	if err != nil {
		return SolverResult{Status: "unknown"}
	}
	defer os.RemoveAll(dir)
	f := filepath.Join(dir, "q.smt2")
	os.WriteFile(f, []byte(q+"(check-sat)\n"), 0o644)
	return runSolvers(f, timeoutS, which)
}

// ---------------------------------------------------------------------------
// Evidence

func writeEvidence(run *checkRun, eng *Engine, wall float64, fatal string) {
	prop := run.prop
	obl, dis := 0, 0
	bySolver := map[string]int{}
	solverSeconds := 0.0
	type sample struct {
		Obligation string  `json:"obligation"`
		Kind       string  `json:"kind"`
		Status     string  `json:"status"`
		Solver     string  `json:"solver"`
		Seconds    float64 `json:"seconds"`
		Source     string  `json:"source,omitempty"`
		Clause     string  `json:"clause,omitempty"`
	}
	var samples []sample
	var failing []sample
	var slow []sample
	var funcs []map[string]any
	assume := map[string]bool{}
	for _, a := range prop.Assumptions {
		assume[a] = true
	}
	kindCount := map[string]int{}
	for _, r := range run.results {
		f := map[string]any{"function": shortKey(r.Key), "ssa_instructions": r.Instrs, "generation_seconds": round3(r.Seconds)}
		n := 0
		for _, o := range r.Obligations {
			if !run.counts(r, o) {
				continue
			}
			n++
			obl++
			kindCount[o.Kind]++
			s := sample{o.Name, o.Kind, o.Result.Status, o.Result.Solver, round3(o.Result.Seconds), fmt.Sprintf("%s:%d", shortFile(o.Pos.Filename), o.Pos.Line), o.Clause}
			solverSeconds += o.Result.Seconds
			if o.Result.Status == "unsat" {
				dis++
				bySolver[o.Result.Solver]++
			} else {
				failing = append(failing, s)
			}
			if len(samples) < 6 && o.Result.Solver != "trivial" && (o.Kind == "ensures" || o.Kind == "invariant" || len(samples) < 3) {
				samples = append(samples, s)
			}
			slow = append(slow, s)
		}
		f["obligations"] = n
		if r.Unsupported != "" {
			f["undecided"] = firstLine(r.Unsupported)
		}
		if r.Ctx != nil {
			f["inlined_callees"] = sortedKeys(r.Ctx.inlined)
			f["contracts_used_at_call_sites"] = sortedKeys(r.Ctx.usedSpecs)
			for k := range r.Ctx.trustedCalls {
				assume["assumed contract (external or trusted): "+k] = true
			}
			for k := range r.Ctx.notes {
				assume[k] = true
			}
		}
		var covers []string
		for _, c := range r.Cover {
			covers = append(covers, c.Name+"="+c.Result.Status)
		}
		f["vacuity_probes"] = covers
		funcs = append(funcs, f)
	}
	obl += run.extraObl
	dis += run.extraDis
	// known findings whose region-excluded obligation is discharged count as
	// discharged obligations of the property on this tree
	dis += len(run.known)
	sort.Slice(slow, func(i, j int) bool { return slow[i].Seconds > slow[j].Seconds })
	if len(slow) > 5 {
		slow = slow[:5]
	}
	level := prop.Level
	if level == "" {
		level = "proof"
	}
	cov := map[string]any{
		"obligations":              obl,
		"discharged":               dis,
		"checker_cmd":              fmt.Sprintf("bin/govc check %s --tier %s", prop.ID, run.tier),
		"trusted_base":             trustedBase(),
		"functions_under_contract": funcs,
		"obligations_by_kind":      kindCount,
		"discharged_by_backend":    bySolver,
		"solver_seconds":           round3(solverSeconds),
		"slowest":                  slow,
		"samples":                  samples,
		"failing":                  failing,
		"known_findings_matched":   run.known,
		"undecided_by_tooling":     run.toolErrors,
		"notes":                    run.notes,
		"explanation":              prop.Explanation,
		"integer_semantics":        "fixed-width Go integers with exact wrap-around (SMT Int, every arithmetic result normalised); lengths assumed < 2^62",
		"contract_files":           eng.contractFiles,
		"load_seconds":             round3(eng.loadSeconds),
	}
	if len(samples) == 0 {
		cov["samples"] = []string{"(no obligations)"}
	}
	if run.bounded != nil {
		cov["bounded_parts"] = map[string]any{"what": run.bounded.What, "bound": run.bounded.Bound, "cases_evaluated": run.bounded.Cases,
			"distinct_nontrivial": run.bounded.Nontrivial, "failures": run.bounded.Failures, "samples": run.bounded.Samples,
			"note": "bounded stand-in: NOT part of the obligations/discharged proof count"}
	}
	if fatal != "" {
		cov["fatal"] = fatal
	}
	ev := map[string]any{
		"property_id": prop.ID,
		"tier":        run.tier,
		"seed":        run.seed,
		"level":       level,
		"coverage":    cov,
		"assumptions": sortedKeys(assume),
		"wall_s":      round3(wall),
		"violations":  len(run.violations),
	}
	b, _ := json.MarshalIndent(ev, "", " ")
	dir := filepath.Join(outDirBase(), "evidence")
	os.MkdirAll(dir, 0o755)
	os.WriteFile(filepath.Join(dir, prop.ID+".json"), b, 0o644)
}

func round3(f float64) float64 { return float64(int(f*1000+0.5)) / 1000 }

func trustedBase() []string {
	return []string{
		"go/packages, go/types, go/ssa (golang.org/x/tools v0.29.0) agree with the Go 1.24.2 compiler on the meaning of the source",
		"govc's SMT encoding of each SSA instruction (cross-checked by the must-fail corpus and by replay on the real code)",
		"z3 5.1.0 / z3 4.8.12 / cvc5 1.0 soundness",
		"assumed contracts of external functions in /verif/specs (named per property under assumptions)",
	}
}

// checkGlobalImmutable is a mechanical scan: the package-level variable is
// stored to only by the package initialiser.  It is reported as one more
// obligation of the property.
func checkGlobalImmutable(eng *Engine, run *checkRun, pkgPath, name string) {
	run.extraObl++
	sp := eng.ssaPkgs[pkgPath]
	if sp == nil {
		run.toolErrors = append(run.toolErrors, "package "+pkgPath+" not loaded")
		return
	}
	g, ok := sp.Members[name].(*ssa.Global)
	if !ok {
		run.toolErrors = append(run.toolErrors, "package variable "+name+" not found in "+pkgPath)
		return
	}
	var bad []string
	for fn := range ssautil.AllFunctions(eng.prog) {
		if fn.Pkg != sp && !(fn.Parent() != nil && fn.Parent().Pkg == sp) {
			continue
		}
		if fn.Name() == "init" && fn.Parent() == nil {
			continue
		}
		for _, b := range fn.Blocks {
			for _, in := range b.Instrs {
				// the address escaping anywhere but a load is also a write risk
				for _, op := range in.Operands(nil) {
					if *op != ssa.Value(g) {
						continue
					}
					if u, ok := in.(*ssa.UnOp); ok && u.Op == token.MUL {
						continue
					}
					bad = append(bad, fmt.Sprintf("%s: %s", eng.prog.Fset.Position(in.Pos()), in))
				}
			}
		}
	}
	if len(bad) == 0 {
		run.extraDis++
		run.notes = append(run.notes, "store scan: "+pkgPath+"."+name+" is only read outside the package initialiser")
		return
	}
	dir := filepath.Join(outDirBase(), "out", "replay", run.prop.ID)
	os.MkdirAll(dir, 0o755)
	path := filepath.Join(dir, "global_"+name+"_assigned.json")
	b, _ := json.MarshalIndent(map[string]any{"property": run.prop.ID, "obligation": "store-scan/" + name, "verdict": "no-model",
		"note": "the package variable is written or its address escapes outside the initialiser", "sites": bad}, "", " ")
	os.WriteFile(path, b, 0o644)
	run.violations = append(run.violations, violation{obligation: "store-scan/" + name, replay: path})
	run.scanViolations = append(run.scanViolations, path)
}
