package main

// Evaluation of contract expressions to SMT terms.

import (
	"os"
	"fmt"
	"go/constant"
	"go/types"
	"math/big"
	"strings"

	"golang.org/x/tools/go/ssa"
)

type cvKind int

const (
	cvInt cvKind = iota
	cvBool
	cvStr
	cvArr // (Array Int Int) value with static or unknown length
	cvVal // any other Go value
	cvNil
)

type CV struct {
	k   cvKind
	t   T
	arr T
	off T
	n   T
	v   Val
}

func (c CV) asInt() T {
	switch c.k {
	case cvInt:
		return c.t
	case cvVal:
		if len(c.v.ts) == 1 && c.v.sh.kind != KBool {
			return c.v.ts[0]
		}
	}
	unsupp("contract: integer expected, got kind %d", c.k)
	return ""
}

func (c CV) asBool() T {
	switch c.k {
	case cvBool:
		return c.t
	case cvVal:
		if c.v.sh.kind == KBool {
			return c.v.ts[0]
		}
	}
	unsupp("contract: boolean expected, got kind %d", c.k)
	return ""
}

func cvOf(v Val) CV {
	switch v.sh.kind {
	case KInt:
		return CV{k: cvInt, t: v.ts[0]}
	case KBool:
		return CV{k: cvBool, t: v.ts[0]}
	case KStr:
		return CV{k: cvStr, arr: v.ts[0], off: v.ts[1], n: v.ts[2]}
	case KArr:
		if v.sh.elem.kind == KInt {
			return CV{k: cvArr, t: v.ts[0], n: num(v.sh.n), v: v}
		}
	}
	return CV{k: cvVal, v: v}
}

// Env is the evaluation environment of a contract expression.
type Env struct {
	fx    *FnCtx
	vars  map[string]CV
	st    *State
	old   *State
	oldV  map[string]CV // values of names in the pre-state (for old(x) on locals)
	pkg   *types.Package
	bound map[string]bool
	fr    *Frame // for named locals (loop invariants)
	lets  map[string]CV
	prev  *State // loop-head state of the current iteration (for prev())
	neg   bool   // evaluating under an odd number of negations / implication antecedents
	mixed int    // evaluating under an equivalence (both polarities)
}

// equalView: identity of two values as the solver sees them (same view for
// strings, same term otherwise).
func (e *Env) equalView(a, b CV) T {
	if a.k == cvVal && a.v.sh.kind == KStr {
		a = CV{k: cvStr, arr: a.v.strArr(), off: a.v.strOff(), n: a.v.strLen()}
	}
	if b.k == cvVal && b.v.sh.kind == KStr {
		b = CV{k: cvStr, arr: b.v.strArr(), off: b.v.strOff(), n: b.v.strLen()}
	}
	if a.k == cvStr && b.k == cvStr {
		return and(eq(a.arr, b.arr), eq(a.off, b.off), eq(a.n, b.n))
	}
	return e.equal(a, b)
}

func (e *Env) child() *Env {
	n := *e
	n.vars = map[string]CV{}
	for k, v := range e.vars {
		n.vars[k] = v
	}
	n.bound = map[string]bool{}
	for k := range e.bound {
		n.bound[k] = true
	}
	return &n
}

func (e *Env) eval(x Expr) CV {
	fx := e.fx
	switch x := x.(type) {
	case *EInt:
		b, ok := new(big.Int).SetString(x.V, 10)
		if !ok {
			unsupp("contract: bad integer %s", x.V)
		}
		return CV{k: cvInt, t: numBig(b)}
	case *EBool:
		if x.V {
			return CV{k: cvBool, t: "true"}
		}
		return CV{k: cvBool, t: "false"}
	case *EStr:
		v := fx.strConst(shapeOf(types.Typ[types.String]), x.V)
		return cvOf(v)
	case *ENil:
		return CV{k: cvNil}
	case *EIdent:
		return e.ident(x.Name)
	case *EUnary:
		switch x.Op {
		case "!":
			e.neg = !e.neg
			v := e.eval(x.X).asBool()
			e.neg = !e.neg
			return CV{k: cvBool, t: not(v)}
		case "-":
			return CV{k: cvInt, t: app("-", e.eval(x.X).asInt())}
		}
	case *EBinary:
		return e.binary(x)
	case *ECond:
		c := e.eval(x.C).asBool()
		a, b := e.eval(x.A), e.eval(x.B)
		return e.iteCV(c, a, b)
	case *ELet:
		v := e.eval(x.Val)
		ne := e.child()
		ne.vars[x.Var] = v
		return ne.eval(x.Body)
	case *EQuant:
		if x.Lo == nil {
			ne := e.child()
			bv := "q_" + x.Var
			for ne.bound[bv] {
				bv += "_"
			}
			ne.bound[bv] = true
			ne.vars[x.Var] = CV{k: cvInt, t: bv}
			body := ne.eval(x.Body).asBool()
			if x.Forall {
				return CV{k: cvBool, t: mkForall(bv, "true", body)}
			}
			return CV{k: cvBool, t: fmt.Sprintf("(exists ((%s Int)) %s)", bv, body)}
		}
		lo, hi := e.eval(x.Lo).asInt(), e.eval(x.Hi).asInt()
		if l, ok := isNumLit(lo); ok {
			if h, ok2 := isNumLit(hi); ok2 && h-l <= 64 {
				// small constant range: expand
				var parts []T
				for i := l; i < h; i++ {
					ne := e.child()
					ne.vars[x.Var] = CV{k: cvInt, t: num(i)}
					parts = append(parts, ne.eval(x.Body).asBool())
				}
				if x.Forall {
					return CV{k: cvBool, t: and(parts...)}
				}
				return CV{k: cvBool, t: or(parts...)}
			}
		}
		ne := e.child()
		bv := "q_" + x.Var
		for ne.bound[bv] {
			bv += "_"
		}
		ne.bound[bv] = true
		// Quantify over absolute positions of the text that the variable
		// indexes: with Var := j - off the index term off + Var simplifies to
		// j, which gives the solver the trigger (select arr j).
		shift := T("0")
		if base := indexedBase(x.Body, x.Var); base != nil {
			func() {
				defer func() { recover() }()
				switch bc := e.eval(base); {
				case bc.k == cvStr:
					shift = bc.off
				}
			}()
		}
		var rng T
		if shift == "0" {
			ne.vars[x.Var] = CV{k: cvInt, t: bv}
			rng = and(le(lo, bv), lt(bv, hi))
		} else {
			ne.vars[x.Var] = CV{k: cvInt, t: sub(bv, shift)}
			rng = and(le(add(shift, lo), bv), lt(bv, add(shift, hi)))
		}
		body := ne.eval(x.Body).asBool()
		if x.Forall {
			abs := fmt.Sprintf("(forall ((%s Int)) %s)", bv, imp(rng, body))
			if shift == "0" {
				return CV{k: cvBool, t: mkForall(bv, rng, body)}
			}
			// the same fact with the bound variable as relative index
			rel := e.child()
			rel.bound[bv] = true
			rel.vars[x.Var] = CV{k: cvInt, t: bv}
			relT := fmt.Sprintf("(forall ((%s Int)) %s)", bv, imp(and(le(lo, bv), lt(bv, hi)), rel.eval(x.Body).asBool()))
			if fx.hypMode && !e.neg && e.mixed == 0 {
				// assumptions are given in both shapes so that they match
				// goals and terms in either (only where the quantifier is a
				// fact; in the antecedent of an implication the extra shape
				// would have to be proved by the user of the assumption)
				return CV{k: cvBool, t: and(abs, relT)}
			}
			return CV{k: cvBool, t: relT}
		}
		return CV{k: cvBool, t: fmt.Sprintf("(exists ((%s Int)) %s)", bv, and(rng, body))}
	case *EIndex:
		b := e.eval(x.X)
		i := e.eval(x.I).asInt()
		return e.index(b, i)
	case *ESlice:
		return e.slice(x)
	case *EField:
		return e.field(e.eval(x.X), x.Name)
	case *ECall:
		return e.call(x)
	}
	unsupp("contract: cannot evaluate %T", x)
	return CV{}
}

// indexedBase finds an expression X such that the body contains X[... v ...]
// and X itself does not mention v.
func indexedBase(body Expr, v string) Expr {
	var found Expr
	mentions := func(e Expr) bool {
		m := false
		walkExpr(e, func(x Expr) {
			if id, ok := x.(*EIdent); ok && id.Name == v {
				m = true
			}
		})
		return m
	}
	walkExpr(body, func(x Expr) {
		if found != nil {
			return
		}
		if ix, ok := x.(*EIndex); ok && mentions(ix.I) && !mentions(ix.X) {
			found = ix.X
		}
	})
	return found
}

func (e *Env) iteCV(c T, a, b CV) CV {
	if a.k == cvNil && b.k == cvVal {
		a = CV{k: cvVal, v: zeroVal(b.v.sh)}
	}
	if b.k == cvNil && a.k == cvVal {
		b = CV{k: cvVal, v: zeroVal(a.v.sh)}
	}
	if a.k != b.k {
		unsupp("contract: branches of ?: have different kinds")
	}
	switch a.k {
	case cvInt, cvBool:
		return CV{k: a.k, t: ite(c, a.t, b.t)}
	case cvStr:
		return CV{k: cvStr, arr: ite(c, a.arr, b.arr), off: ite(c, a.off, b.off), n: ite(c, a.n, b.n)}
	case cvArr:
		return CV{k: cvArr, t: ite(c, a.t, b.t), n: a.n}
	case cvVal:
		return CV{k: cvVal, v: iteVal(c, a.v, b.v)}
	}
	return a
}

func (e *Env) ident(name string) CV {
	if v, ok := e.vars[name]; ok {
		return v
	}
	if e.lets != nil {
		if v, ok := e.lets[name]; ok {
			return v
		}
	}
	if e.fr != nil {
		if v, ok := e.fr.localByName(name, e.st); ok {
			return cvOf(v)
		}
	}
	// package-level constant
	if e.pkg != nil {
		if obj := e.pkg.Scope().Lookup(name); obj != nil {
			if c, ok := obj.(*types.Const); ok {
				return e.constCV(c)
			}
			if v, ok := obj.(*types.Var); ok {
				// package-level variable: its value in the current state
				if sp := e.fx.eng.prog.Package(e.pkg); sp != nil {
					if g, ok := sp.Members[v.Name()].(*ssa.Global); ok {
						p := e.fx.globalPtr(g)
						return e.deref(p)
					}
				}
			}
		}
	}
	// well-known constants
	switch name {
	case "MaxInt64":
		return CV{k: cvInt, t: "9223372036854775807"}
	}
	unsupp("contract: unknown name %q", name)
	return CV{}
}

func (e *Env) constCV(c *types.Const) CV {
	switch c.Val().Kind() {
	case constant.Int:
		b, _ := new(big.Int).SetString(c.Val().ExactString(), 10)
		return CV{k: cvInt, t: numBig(b)}
	case constant.Bool:
		if constant.BoolVal(c.Val()) {
			return CV{k: cvBool, t: "true"}
		}
		return CV{k: cvBool, t: "false"}
	case constant.String:
		sh := shapeOf(c.Type())
		v := e.fx.strConst(sh, constant.StringVal(c.Val()))
		if sh.kind == KStr && c.Type() != types.Typ[types.String] && c.Type() != types.Typ[types.UntypedString] {
			// a constant of a named string type keeps its Go value too
			cv := cvOf(v)
			cv.v = v
			return cv
		}
		return cvOf(v)
	}
	unsupp("contract: constant %s of unsupported kind", c.Name())
	return CV{}
}

func (e *Env) binary(x *EBinary) CV {
	switch x.Op {
	case "&&":
		return CV{k: cvBool, t: and(e.eval(x.L).asBool(), e.eval(x.R).asBool())}
	case "||":
		return CV{k: cvBool, t: or(e.eval(x.L).asBool(), e.eval(x.R).asBool())}
	case "==>":
		e.neg = !e.neg
		l := e.eval(x.L).asBool()
		e.neg = !e.neg
		return CV{k: cvBool, t: imp(l, e.eval(x.R).asBool())}
	case "<==>":
		e.mixed++
		l, r := e.eval(x.L).asBool(), e.eval(x.R).asBool()
		e.mixed--
		return CV{k: cvBool, t: eq(l, r)}
	case "==":
		return CV{k: cvBool, t: e.equal(e.eval(x.L), e.eval(x.R))}
	case "!=":
		return CV{k: cvBool, t: not(e.equal(e.eval(x.L), e.eval(x.R)))}
	}
	l, r := e.eval(x.L).asInt(), e.eval(x.R).asInt()
	switch x.Op {
	case "<":
		return CV{k: cvBool, t: lt(l, r)}
	case "<=":
		return CV{k: cvBool, t: le(l, r)}
	case ">":
		return CV{k: cvBool, t: lt(r, l)}
	case ">=":
		return CV{k: cvBool, t: le(r, l)}
	case "+":
		return CV{k: cvInt, t: add(l, r)}
	case "-":
		return CV{k: cvInt, t: sub(l, r)}
	case "*":
		return CV{k: cvInt, t: app("*", l, r)}
	case "/":
		return CV{k: cvInt, t: app("div", l, r)}
	case "%":
		return CV{k: cvInt, t: app("mod", l, r)}
	case "<<":
		if c, ok := litBig(r); ok {
			return CV{k: cvInt, t: app("*", l, numBig(pow2(uint(c.Int64()))))}
		}
	case ">>":
		if c, ok := litBig(r); ok {
			return CV{k: cvInt, t: app("div", l, numBig(pow2(uint(c.Int64()))))}
		}
	case "&":
		if c, ok := litBig(r); ok && c.Sign() >= 0 {
			return CV{k: cvInt, t: constMask(l, c, 64)}
		}
	}
	unsupp("contract: operator %s", x.Op)
	return CV{}
}

// equal is == of the contract language: content equality on strings.
func (e *Env) equal(a, b CV) T {
	fx := e.fx
	if a.k == cvNil || b.k == cvNil {
		if a.k == cvNil {
			a, b = b, a
		}
		if b.k == cvNil && a.k == cvNil {
			return "true"
		}
		if a.k != cvVal {
			unsupp("contract: comparison of non-reference with nil")
		}
		return eq(a.v.ts[0], "0")
	}
	switch {
	case a.k == cvInt || b.k == cvInt:
		return eq(a.asInt(), b.asInt())
	case a.k == cvBool || b.k == cvBool:
		return eq(a.asBool(), b.asBool())
	case a.k == cvStr && b.k == cvStr:
		sh := shapeOf(types.Typ[types.String])
		return fx.strEq(mkStr(sh, a.arr, a.off, a.n), mkStr(sh, b.arr, b.off, b.n))
	case a.k == cvArr && b.k == cvArr:
		if n, ok := isNumLit(a.n); ok && n <= 64 {
			var cs []T
			for i := int64(0); i < n; i++ {
				cs = append(cs, eq(sel(a.t, num(i)), sel(b.t, num(i))))
			}
			return and(cs...)
		}
		return eq(a.t, b.t)
	case a.k == cvVal && b.k == cvVal:
		if a.v.sh.kind == KIface && b.v.sh.kind == KIface {
			return and(eq(a.v.ts[0], b.v.ts[0]), eq(a.v.ts[1], b.v.ts[1]))
		}
		if len(a.v.ts) != len(b.v.ts) {
			unsupp("contract: comparison of different shapes %s / %s", a.v.sh.key, b.v.sh.key)
		}
		var cs []T
		for i := range a.v.ts {
			cs = append(cs, eq(a.v.ts[i], b.v.ts[i]))
		}
		return and(cs...)
	}
	unsupp("contract: cannot compare kinds %d and %d", a.k, b.k)
	return ""
}

func (e *Env) index(b CV, i T) CV {
	switch b.k {
	case cvStr:
		return CV{k: cvInt, t: sel(b.arr, add(b.off, i))}
	case cvArr:
		return CV{k: cvInt, t: sel(b.t, i)}
	case cvVal:
		switch b.v.sh.kind {
		case KSlice:
			return cvOf(e.sliceElem(b.v, i))
		case KArr:
			return cvOf(b.v.arrayGet(i))
		case KPtr:
			if b.v.sh.elem != nil && b.v.sh.elem.kind == KArr {
				return e.index(e.deref(b.v), i)
			}
		}
	}
	unsupp("contract: indexing kind %d", b.k)
	return CV{}
}

func (e *Env) sliceElem(s Val, i T) Val {
	fx := e.fx
	n := s.sh.elem.ncomp()
	ts := make([]T, n)
	for c := 0; c < n; c++ {
		ts[c] = sel(fx.sliceBacking(e.st, s.sh.elem, s.slRef(), c), add(s.slOff(), i))
	}
	return Val{sh: s.sh.elem, ts: ts}
}

func (e *Env) slice(x *ESlice) CV {
	b := e.eval(x.X)
	lo := T("0")
	if x.Lo != nil {
		lo = e.eval(x.Lo).asInt()
	}
	switch b.k {
	case cvStr:
		hi := b.n
		if x.Hi != nil {
			hi = e.eval(x.Hi).asInt()
		}
		return CV{k: cvStr, arr: b.arr, off: add(b.off, lo), n: sub(hi, lo)}
	case cvVal:
		if b.v.sh.kind == KSlice {
			hi := b.v.slLen()
			if x.Hi != nil {
				hi = e.eval(x.Hi).asInt()
			}
			return CV{k: cvVal, v: Val{sh: b.v.sh, ts: []T{b.v.slRef(), add(b.v.slOff(), lo), sub(hi, lo), sub(b.v.slCap(), lo)}}}
		}
	case cvArr:
		hi := b.n
		if x.Hi != nil {
			hi = e.eval(x.Hi).asInt()
		}
		return CV{k: cvStr, arr: b.t, off: lo, n: sub(hi, lo)}
	}
	unsupp("contract: slicing kind %d", b.k)
	return CV{}
}

func (e *Env) deref(p Val) CV {
	fx := e.fx
	if p.ptr != nil && p.ptr.cell != nil {
		cv, ok := e.st.cells[p.ptr.cell]
		if !ok {
			unsupp("contract: dereference of dead cell")
		}
		return cvOf(navGet(cv, p.ptr.path))
	}
	if p.ptr != nil {
		root := fx.loadObj(e.st, p.ptr.root, p.ts[0])
		return cvOf(navGet(root, p.ptr.path))
	}
	if p.sh.elem == nil {
		unsupp("contract: dereference of untyped pointer")
	}
	v := fx.loadObj(e.st, p.sh.elem, p.ts[0])
	if len(e.bound) == 0 {
		// every heap location holds a well-typed value
		fx.assumeOnce(typeInvariant(v))
	}
	return cvOf(v)
}

func (e *Env) field(b CV, name string) CV {
	if b.k == cvStr && b.v.sh != nil {
		b = CV{k: cvVal, v: b.v}
	}
	if b.k != cvVal {
		unsupp("contract: field %s of non-struct", name)
	}
	v := b.v
	if v.sh.kind == KPtr {
		d := e.deref(v)
		if d.k != cvVal {
			unsupp("contract: field %s through pointer to non-struct", name)
		}
		v = d.v
	}
	if v.sh.kind != KStruct && v.sh.kind != KTuple {
		unsupp("contract: field %s of %s", name, v.sh.key)
	}
	for i, fn := range v.sh.fnames {
		if fn == name {
			return cvOf(v.field(i))
		}
	}
	// promoted fields through embedded structs
	for i, fn := range v.sh.fnames {
		_ = fn
		if st, ok := v.sh.fields[i].typ.Underlying().(*types.Struct); ok && v.sh.fields[i].kind == KStruct {
			for j := 0; j < st.NumFields(); j++ {
				if st.Field(j).Name() == name {
					return cvOf(v.field(i).field(j))
				}
			}
		}
	}
	unsupp("contract: no field %s in %s", name, v.sh.key)
	return CV{}
}

func (e *Env) lenOf(b CV) T {
	switch b.k {
	case cvStr:
		return b.n
	case cvArr:
		return b.n
	case cvVal:
		switch b.v.sh.kind {
		case KSlice:
			return b.v.slLen()
		case KArr:
			return num(b.v.sh.n)
		case KMap:
			return e.fx.mapLen(e.st, b.v)
		case KPtr:
			if b.v.sh.elem != nil && b.v.sh.elem.kind == KArr {
				return num(b.v.sh.elem.n)
			}
		}
	}
	unsupp("contract: len of kind %d", b.k)
	return ""
}

// resolveTypeExpr also understands "map[K]V" and "[]T".
func (e *Env) resolveTypeExpr(name string) types.Type {
	name = strings.TrimSpace(name)
	if strings.HasPrefix(name, "map[") {
		depth := 0
		for i := 3; i < len(name); i++ {
			if name[i] == '[' {
				depth++
			} else if name[i] == ']' {
				depth--
				if depth == 0 {
					return types.NewMap(e.resolveTypeExpr(name[4:i]), e.resolveTypeExpr(name[i+1:]))
				}
			}
		}
	}
	if strings.HasPrefix(name, "[]") {
		return types.NewSlice(e.resolveTypeExpr(name[2:]))
	}
	return e.resolveType(name)
}

func (e *Env) resolveType(name string) types.Type {
	ptr := 0
	for strings.HasPrefix(name, "*") {
		ptr++
		name = name[1:]
	}
	var t types.Type
	if i := strings.LastIndex(name, "."); i >= 0 {
		pkgName, tn := name[:i], name[i+1:]
		// exact import path first, then the shortest path with that package name
		var best *types.Package
		for _, imp := range e.fx.eng.allPackages() {
			if imp.Path() == pkgName {
				best = imp
				break
			}
			if imp.Name() == pkgName && imp.Scope().Lookup(tn) != nil && !strings.Contains(imp.Path(), "internal/") {
				if best == nil || len(imp.Path()) < len(best.Path()) {
					best = imp
				}
			}
		}
		if best != nil {
			if obj := best.Scope().Lookup(tn); obj != nil {
				t = obj.Type()
			}
		}
	} else if e.pkg != nil {
		if obj := e.pkg.Scope().Lookup(name); obj != nil {
			t = obj.Type()
		}
	}
	if t == nil {
		if obj := types.Universe.Lookup(name); obj != nil {
			t = obj.Type()
		}
	}
	if t == nil {
		unsupp("contract: unknown type %q", name)
	}
	for i := 0; i < ptr; i++ {
		t = types.NewPointer(t)
	}
	return t
}

func (e *Env) call(x *ECall) CV {
	fx := e.fx
	arg := func(i int) CV {
		if i >= len(x.Args) {
			unsupp("contract: %s: missing argument %d", x.Fn, i)
		}
		return e.eval(x.Args[i])
	}
	switch x.Fn {
	case "len":
		return CV{k: cvInt, t: e.lenOf(arg(0))}
	case "cap":
		a := arg(0)
		if a.k == cvVal && a.v.sh.kind == KSlice {
			return CV{k: cvInt, t: a.v.slCap()}
		}
		unsupp("contract: cap of non-slice")
	case "old":
		if e.old == nil {
			unsupp("contract: old() outside a two-state context")
		}
		ne := *e
		ne.st = e.old
		if e.oldV != nil {
			ne.vars = map[string]CV{}
			for k, v := range e.vars {
				ne.vars[k] = v
			}
			for k, v := range e.oldV {
				ne.vars[k] = v
			}
		}
		ne.fr = nil
		return ne.eval(x.Args[0])
	case "prev":
		if e.prev == nil {
			unsupp("contract: prev() outside an apply clause")
		}
		ne := *e
		ne.st = e.prev
		return ne.eval(x.Args[0])
	case "sameView":
		a, b := arg(0), arg(1)
		if a.k != cvStr || b.k != cvStr {
			unsupp("contract: sameView needs strings")
		}
		return CV{k: cvBool, t: and(eq(a.arr, b.arr), eq(a.off, b.off), eq(a.n, b.n))}
	case "sameBase":
		a, b := arg(0), arg(1)
		if a.k == cvStr && b.k == cvStr {
			return CV{k: cvBool, t: eq(a.arr, b.arr)}
		}
		if a.k == cvVal && b.k == cvVal && a.v.sh.kind == KSlice && b.v.sh.kind == KSlice {
			return CV{k: cvBool, t: eq(a.v.slRef(), b.v.slRef())}
		}
		unsupp("contract: sameBase needs two strings or two slices")
	case "arrOf":
		a := arg(0)
		if a.k == cvStr {
			return CV{k: cvArr, t: a.arr, n: "0"}
		}
		unsupp("contract: arrOf of non-string")
	case "mkstr":
		// mkstr(arr, off, len): the string view with these coordinates
		a := arg(0)
		if a.k != cvArr {
			unsupp("contract: mkstr(array, off, len)")
		}
		return CV{k: cvStr, arr: a.t, off: arg(1).asInt(), n: arg(2).asInt()}
	case "off":
		a := arg(0)
		if a.k == cvStr {
			return CV{k: cvInt, t: a.off}
		}
		if a.k == cvVal && a.v.sh.kind == KSlice {
			return CV{k: cvInt, t: a.v.slOff()}
		}
		unsupp("contract: off of non-view")
	case "ref":
		a := arg(0)
		if a.k == cvVal {
			return CV{k: cvInt, t: a.v.ts[0]}
		}
		unsupp("contract: ref of non-reference")
	case "fresh":
		a := arg(0)
		if a.k != cvVal || e.old == nil {
			unsupp("contract: fresh() needs a reference in a two-state context")
		}
		return CV{k: cvBool, t: lt(e.old.alloc, a.v.ts[0])}
	case "invoke":
		// invoke(f): the result of running, without arguments, the closure f
		// that the function under verification has just made.  The body is
		// executed symbolically (its own obligations included) on a copy of
		// the current state, and the rest of the clause is evaluated in the
		// state it leaves - so `let v = invoke(f) in P(v)` states what the
		// closure will produce whenever its owner calls it later, as far as
		// that depends on the captured variables (which are not written
		// after the closure is handed over).
		a := arg(0)
		if e.fr == nil || a.k != cvVal || len(a.v.fns) != 1 || a.v.fns[0].cond != "true" || a.v.fns[0].fn == nil {
			unsupp("contract: invoke() needs a closure made by this function")
		}
		alt := a.v.fns[0]
		if len(alt.fn.Params) != 0 {
			unsupp("contract: invoke() of a closure with parameters")
		}
		sub := e.st.clone()
		out, vals := e.fx.execFunction(alt.fn, nil, alt.bindings, sub, e.fr.path+"/invoke/"+alt.fn.Name(), e.fr.depth+1, false)
		if len(vals) != 1 {
			unsupp("contract: invoke() of a closure without exactly one result")
		}
		e.st = out
		return cvOf(vals[0])
	case "unchanged":
		// unchanged("T"): every object (or map) of type T has the contents it
		// had in the pre-state - equality of the whole heaps, no quantifier
		id, ok := x.Args[0].(*EStr)
		if !ok || e.old == nil {
			unsupp("contract: unchanged(\"T\") needs a type name and a two-state context")
		}
		sh := shapeOf(e.resolveTypeExpr(id.V))
		var eqs []T
		if sh.kind == KMap {
			has, val, hasSort, valSorts, _ := mapHeaps(sh)
			eqs = append(eqs, eq(fx.heapTerm(e.st, has[0], arrSort(hasSort)), fx.heapTerm(e.old, has[0], arrSort(hasSort))))
			for c := range val {
				eqs = append(eqs, eq(fx.heapTerm(e.st, val[c], arrSort(valSorts[c])), fx.heapTerm(e.old, val[c], arrSort(valSorts[c]))))
			}
			eqs = append(eqs, eq(fx.heapTerm(e.st, "ML|"+sh.key, arrSort(sInt)), fx.heapTerm(e.old, "ML|"+sh.key, arrSort(sInt))))
		} else {
			if sh.kind == KSlice {
				sh = &Shape{kind: KArr, elem: sh.elem, n: -1, key: "[?]" + sh.elem.key}
			}
			for c := 0; c < sh.ncomp(); c++ {
				eqs = append(eqs, eq(fx.heapTerm(e.st, heapName(sh, c), heapSort(sh, c)), fx.heapTerm(e.old, heapName(sh, c), heapSort(sh, c))))
			}
		}
		return CV{k: cvBool, t: and(eqs...)}
	case "allocated":
		// the reference denotes an object that exists in the current state
		a := arg(0)
		if a.k != cvVal {
			unsupp("contract: allocated() needs a reference")
		}
		return CV{k: cvBool, t: and(le("0", a.v.ts[0]), le(a.v.ts[0], e.st.alloc))}
	case "typeis":
		a := arg(0)
		s, ok := x.Args[1].(*EStr)
		if !ok || a.k != cvVal || a.v.sh.kind != KIface {
			unsupp("contract: typeis(iface, \"T\")")
		}
		t := e.resolveType(s.V)
		return CV{k: cvBool, t: eq(a.v.ifTyp(), num(int64(fx.eng.tids.id(t))))}
	case "as":
		a := arg(0)
		s, ok := x.Args[1].(*EStr)
		if !ok || a.k != cvVal || a.v.sh.kind != KIface {
			unsupp("contract: as(iface, \"T\")")
		}
		t := e.resolveType(s.V)
		sh := shapeOf(t)
		if len(sh.sorts()) == 1 {
			return cvOf(Val{sh: sh, ts: []T{a.v.ifBox()}})
		}
		fr := &Frame{fx: fx}
		return cvOf(fr.unbox(e.st, a.v, t))
	case "isnil":
		a := arg(0)
		if a.k == cvNil {
			return CV{k: cvBool, t: "true"}
		}
		if a.k == cvVal {
			return CV{k: cvBool, t: eq(a.v.ts[0], "0")}
		}
		unsupp("contract: isnil of non-reference")
	case "deref":
		a := arg(0)
		if a.k != cvVal || a.v.sh.kind != KPtr {
			unsupp("contract: deref of non-pointer")
		}
		return e.deref(a.v)
	case "int", "uint64", "int64", "uint", "rune", "int32":
		return CV{k: cvInt, t: arg(0).asInt()}
	case "byte", "uint8":
		return CV{k: cvInt, t: app("mod", arg(0).asInt(), "256")}
	case "uint16":
		return CV{k: cvInt, t: app("mod", arg(0).asInt(), "65536")}
	case "min":
		a, b := arg(0).asInt(), arg(1).asInt()
		return CV{k: cvInt, t: ite(le(a, b), a, b)}
	case "max":
		a, b := arg(0).asInt(), arg(1).asInt()
		return CV{k: cvInt, t: ite(le(a, b), b, a)}
	case "abs":
		return CV{k: cvInt, t: app("abs", arg(0).asInt())}
	case "str": // view of a slice's bytes in the current state as a string value
		a := arg(0)
		if a.k == cvVal && a.v.sh.kind == KSlice {
			return CV{k: cvStr, arr: fx.sliceBacking(e.st, a.v.sh.elem, a.v.slRef(), 0), off: a.v.slOff(), n: a.v.slLen()}
		}
		if a.k == cvStr {
			return a
		}
		if a.k == cvArr {
			return CV{k: cvStr, arr: a.t, off: "0", n: a.n}
		}
		unsupp("contract: str() of kind %d", a.k)
	case "events", "evis", "evarg", "evres":
		// the global sequence of interface-method calls made so far
		if fx.ghost == nil {
			fx.ghost = map[string]*Cell{}
		}
		gv := func(name string) (Val, bool) {
			c := fx.ghost[name]
			if c == nil {
				return Val{}, false
			}
			if v, live := e.st.cells[c]; live {
				return v, true
			}
			if c.ghostInit != nil {
				return *c.ghostInit, true
			}
			return Val{}, false
		}
		switch x.Fn {
		case "events":
			if v, ok := gv("evn"); ok {
				return cvOf(v)
			}
			return CV{k: cvInt, t: "0"}
		case "evis":
			s, ok := x.Args[1].(*EStr)
			if !ok {
				unsupp("contract: evis(k, \"iface.Method\")")
			}
			v, ok2 := gv("evkind")
			if !ok2 {
				return CV{k: cvBool, t: "false"}
			}
			return CV{k: cvBool, t: eq(sel(v.ts[0], arg(0).asInt()), num(int64(fx.eng.eventID(s.V))))}
		default:
			s, ok := x.Args[0].(*EStr)
			idx, ok2 := x.Args[2].(*EInt)
			if !ok || !ok2 {
				unsupp("contract: evarg(\"iface.Method\", k, <literal argument index>)")
			}
			v, ok3 := gv(x.Fn + ":" + s.V + ":" + idx.V)
			if !ok3 {
				unsupp("contract: no call of %s recorded", s.V)
			}
			return cvOf(v.arrayGet(arg(1).asInt()))
		}
	case "closes", "lastclosed":
		if c := fx.ghost[x.Fn]; c != nil {
			if v, live := e.st.cells[c]; live {
				return cvOf(v)
			}
			if c.ghostInit != nil {
				return cvOf(*c.ghostInit)
			}
		}
		if x.Fn == "closes" {
			return CV{k: cvInt, t: "0"}
		}
		unsupp("contract: no channel has been closed")
	case "cbcalls", "cbarg", "cbres":
		if fx.ghost == nil {
			fx.ghost = map[string]*Cell{}
		}
		get := func(name string) (Val, bool) {
			c := fx.ghost[name]
			if c == nil {
				return Val{}, false
			}
			if v, live := e.st.cells[c]; live {
				return v, true
			}
			if c.ghostInit != nil {
				return *c.ghostInit, true
			}
			return Val{}, false
		}
		switch x.Fn {
		case "cbcalls":
			if v, ok := get("cbcalls"); ok {
				return cvOf(v)
			}
			return CV{k: cvInt, t: "0"}
		case "cbarg":
			idx, ok := x.Args[1].(*EInt)
			if !ok {
				unsupp("contract: cbarg(k, <literal argument index>)")
			}
			v, ok2 := get("cbarg:" + idx.V)
			if !ok2 {
				unsupp("contract: no callback call recorded")
			}
			return cvOf(v.arrayGet(arg(0).asInt()))
		default:
			v, ok := get("cbres")
			if !ok {
				unsupp("contract: no callback result recorded")
			}
			return cvOf(v.arrayGet(arg(0).asInt()))
		}
	case "calls", "callarg", "callres":
		s, ok := x.Args[0].(*EStr)
		if !ok {
			unsupp("contract: %s(\"iface.Method\", ...)", x.Fn)
		}
		if fx.ghost == nil {
			fx.ghost = map[string]*Cell{}
		}
		if x.Fn == "calls" {
			c := fx.ghost["calls:"+s.V]
			if c == nil {
				return CV{k: cvInt, t: "0"}
			}
			if v, live := e.st.cells[c]; live {
				return cvOf(v)
			}
			return CV{k: cvInt, t: "0"}
		}
		idx, ok2 := x.Args[1].(*EInt)
		if !ok2 {
			unsupp("contract: %s needs a literal index", x.Fn)
		}
		pre := "arg:"
		if x.Fn == "callres" {
			pre = "res:"
		}
		c := fx.ghost[pre+s.V+":"+idx.V]
		if c == nil {
			unsupp("contract: no recorded call of %s", s.V)
		}
		v, live := e.st.cells[c]
		if !live {
			v = *c.ghostInit
		}
		return cvOf(v)
	case "post":
		// post(r, e): e evaluated in the post-state of lemma call r
		id, ok := x.Args[0].(*EIdent)
		if !ok || fx.lemmaStates == nil || fx.lemmaStates[id.Name] == nil {
			unsupp("contract: post(call-result, expr) outside a lemma with calls")
		}
		ne := *e
		ne.st = fx.lemmaStates[id.Name]
		return ne.eval(x.Args[1])
	case "with":
		// with(structValue, "Field", value): functional update
		a := arg(0)
		fs, ok := x.Args[1].(*EStr)
		if !ok || a.k != cvVal || a.v.sh.kind != KStruct {
			unsupp("contract: with(struct, \"Field\", value)")
		}
		for i, n := range a.v.sh.fnames {
			if n == fs.V {
				return cvOf(a.v.withField(i, e.toVal(arg(2), a.v.sh.fields[i])))
			}
		}
		unsupp("contract: with: no field %s", fs.V)
	case "lt":
		// the total order of an ordered type parameter
		fx.declareOrd()
		return CV{k: cvBool, t: app("|ord.lt|", arg(0).asInt(), arg(1).asInt())}
	case "visited":
		// visited(x): key x has been yielded by the map iteration in progress
		if e.fr == nil {
			unsupp("contract: visited() outside a loop invariant")
		}
		for _, c := range e.fr.iters {
			if v, ok := e.st.cells[c]; ok && c.sh.key == "mapiter" {
				return CV{k: cvBool, t: sel(v.ts[0], arg(0).asInt())}
			}
		}
		unsupp("contract: no map iteration in progress")
	case "local":
		// local(x): value of the local variable x at this return point
		id, ok := x.Args[0].(*EIdent)
		if !ok || fx.rootFrame == nil {
			unsupp("contract: local(name)")
		}
		v, found := fx.rootFrame.localByName(id.Name, e.st)
		if !found {
			unsupp("contract: local %s is not live here", id.Name)
		}
		return cvOf(v)
	case "monitor", "monitor_assumed":
		// monitor(c, "lock"): the (proved / assumed) monitor invariants of the
		// mutex field of object c
		a := arg(0)
		fs, ok := x.Args[1].(*EStr)
		if !ok || a.k != cvVal || a.v.sh.kind != KPtr || a.v.sh.elem == nil {
			unsupp("contract: monitor(object, \"mutexfield\")")
		}
		var mon *MonitorSpec
		for i, n := range a.v.sh.elem.fnames {
			if n == fs.V {
				mon = fx.eng.contracts.Monitors[embeddedKey(a.v.sh.elem, i)]
			}
		}
		if mon == nil {
			unsupp("contract: no monitor declared for field %s", fs.V)
		}
		ne := &Env{fx: fx, vars: map[string]CV{mon.Var: a}, st: e.st, old: e.old, pkg: fx.eng.pkgOf(mon.Pkg), bound: map[string]bool{}}
		list := mon.Invariants
		if x.Fn == "monitor_assumed" {
			list = mon.Assumed
		}
		var cs []T
		for _, inv := range list {
			cs = append(cs, ne.eval(inv.E).asBool())
		}
		return CV{k: cvBool, t: and(cs...)}
	case "addr":
		// addr(p, "field"): address of an embedded (separately addressed) field
		a := arg(0)
		fs, ok := x.Args[1].(*EStr)
		if !ok || a.k != cvVal || a.v.sh.kind != KPtr || a.v.sh.elem == nil || a.v.sh.elem.kind != KStruct {
			unsupp("contract: addr(pointer-to-struct, \"field\")")
		}
		for i, n := range a.v.sh.elem.fnames {
			if n == fs.V {
				fsh := a.v.sh.elem.fields[i]
				code := fx.embAddr(a.v.ts[0], i)
				return cvOf(Val{sh: &Shape{kind: KPtr, elem: fsh, key: "*" + fsh.key}, ts: []T{code}})
			}
		}
		unsupp("contract: addr: no field %s", fs.V)
	case "owner":
		// owner(q, "T"): the object of type T whose embedded field has address q
		a := arg(0)
		ts, ok := x.Args[1].(*EStr)
		if !ok || a.k != cvVal {
			unsupp("contract: owner(pointer, \"T\")")
		}
		t := e.resolveType(ts.V)
		return cvOf(Val{sh: shapeOf(types.NewPointer(t)), ts: []T{fx.embOwner(a.v.ts[0])}})
	case "keyid":
		// keyid(v): the identity under which v is a map key (content id for strings)
		a := arg(0)
		if a.k == cvStr {
			return CV{k: cvInt, t: fx.keyTerm(mkStr(shapeOf(types.Typ[types.String]), a.arr, a.off, a.n))}
		}
		return CV{k: cvInt, t: a.asInt()}
	case "strid":
		// strid(s): the map key identity of a string / byte slice content
		a := arg(0)
		if a.k == cvVal && a.v.sh.kind == KSlice {
			a = CV{k: cvStr, arr: fx.sliceBacking(e.st, a.v.sh.elem, a.v.slRef(), 0), off: a.v.slOff(), n: a.v.slLen()}
		}
		if a.k != cvStr {
			unsupp("contract: strid of non-string")
		}
		return CV{k: cvInt, t: fx.keyTerm(mkStr(shapeOf(types.Typ[types.String]), a.arr, a.off, a.n))}
	case "zero":
		s, ok := x.Args[0].(*EStr)
		if !ok {
			unsupp("contract: zero(\"T\")")
		}
		return cvOf(zeroVal(shapeOf(e.resolveType(s.V))))
	case "haskey":
		m, k := arg(0), arg(1)
		if m.k != cvVal || m.v.sh.kind != KMap {
			unsupp("contract: haskey of non-map")
		}
		return CV{k: cvBool, t: fx.mapHas(e.st, m.v, e.toVal(k, m.v.sh.fields[0]))}
	case "mapget":
		m, k := arg(0), arg(1)
		if m.k != cvVal || m.v.sh.kind != KMap {
			unsupp("contract: mapget of non-map")
		}
		return cvOf(fx.mapGet(e.st, m.v, e.toVal(k, m.v.sh.fields[0])))
	}
	// spec function
	if sf, ok := fx.eng.contracts.SpecFns[x.Fn]; ok {
		var args []CV
		for i := range x.Args {
			args = append(args, arg(i))
		}
		return e.callSpecFn(sf, args)
	}
	unsupp("contract: unknown function %q", x.Fn)
	return CV{}
}

// toVal converts a contract value to a Go value of the given shape.
func (e *Env) toVal(c CV, sh *Shape) Val {
	switch c.k {
	case cvInt, cvBool:
		return Val{sh: sh, ts: []T{c.t}}
	case cvStr:
		return Val{sh: sh, ts: []T{c.arr, c.off, c.n}}
	case cvVal:
		return c.v
	case cvNil:
		return zeroVal(sh)
	case cvArr:
		return c.v
	}
	unsupp("contract: cannot convert value")
	return Val{}
}

// ---------------------------------------------------------------------------
// Spec functions

type specType struct {
	k     cvKind
	sorts []string
	sh    *Shape
}

func (e *Env) specTypeOf(name string) specType {
	switch name {
	case "int", "byte", "rune", "uint8", "uint16", "uint32", "uint64", "int8", "int16", "int32", "int64", "uint", "nat":
		return specType{k: cvInt, sorts: []string{sInt}}
	case "bool":
		return specType{k: cvBool, sorts: []string{sBool}}
	case "string", "[]byte":
		return specType{k: cvStr, sorts: []string{sArr, sInt, sInt}}
	}
	if strings.HasPrefix(name, "[") && strings.HasSuffix(name, "]byte") {
		return specType{k: cvArr, sorts: []string{sArr}}
	}
	t := e.resolveType(name)
	sh := shapeOf(t)
	return specType{k: cvVal, sorts: sh.sorts(), sh: sh}
}

func flattenCV(c CV, st specType) []T {
	switch st.k {
	case cvInt:
		return []T{c.asInt()}
	case cvBool:
		return []T{c.asBool()}
	case cvStr:
		if c.k == cvArr {
			return []T{c.t, "0", c.n}
		}
		if c.k != cvStr {
			unsupp("contract: string argument expected")
		}
		return []T{c.arr, c.off, c.n}
	case cvArr:
		if c.k != cvArr {
			unsupp("contract: array argument expected")
		}
		return []T{c.t}
	case cvVal:
		if c.k == cvNil {
			return zeroVal(st.sh).ts
		}
		if c.k == cvInt && len(st.sorts) == 1 {
			return []T{c.t}
		}
		if c.k != cvVal {
			unsupp("contract: value argument expected")
		}
		return c.v.ts
	}
	return nil
}

func unflattenCV(ts []T, st specType, arrLen T) CV {
	switch st.k {
	case cvInt, cvBool:
		return CV{k: st.k, t: ts[0]}
	case cvStr:
		return CV{k: cvStr, arr: ts[0], off: ts[1], n: ts[2]}
	case cvArr:
		return CV{k: cvArr, t: ts[0], n: arrLen}
	}
	return CV{k: cvVal, v: Val{sh: st.sh, ts: ts}}
}

func arrLenOfType(name string) T {
	if strings.HasPrefix(name, "[") {
		if i := strings.Index(name, "]"); i > 1 {
			return name[1:i]
		}
	}
	return "0"
}

// callSpecFn emits the definition (once) and returns the application.
func (e *Env) callSpecFn(sf *SpecFn, args []CV) CV {
	fx := e.fx
	if len(args) != len(sf.Params) {
		unsupp("contract: %s expects %d arguments", sf.Name, len(sf.Params))
	}
	fx.usedSpecFns[sf.Name] = true
	if fx.defineByEnsures && sf.Body == nil && len(sf.Ensures) == 1 {
		// ground evaluation (bounded search): a function characterised by
		// "result <==> E" / "result == E" is evaluated as E
		if b, ok := sf.Ensures[0].E.(*EBinary); ok && (b.Op == "<==>" || b.Op == "==") {
			if id, ok := b.L.(*EIdent); ok && id.Name == "result" {
				ne := e.child()
				for i, p := range sf.Params {
					ne.vars[p.Name] = args[i]
				}
				ne.pkg = fx.eng.pkgOf(sf.Pkg)
				if ne.pkg == nil {
					ne.pkg = e.pkg
				}
				return ne.eval(b.R)
			}
		}
	}
	if sf.Inline {
		// macro: evaluate the body here, in the current state
		if sf.Body == nil || sf.Recursive {
			unsupp("contract: inline spec fn %s needs a non-recursive body", sf.Name)
		}
		ne := e.child()
		for i, p := range sf.Params {
			ne.vars[p.Name] = args[i]
		}
		ne.pkg = fx.eng.pkgOf(sf.Pkg)
		if ne.pkg == nil {
			ne.pkg = e.pkg
		}
		return ne.eval(sf.Body)
	}
	fx.emitSpecFn(sf)
	var flat []T
	for i, p := range sf.Params {
		pt := e.specTypeOf(p.Type)
		if pt.k == cvStr && args[i].k == cvVal && args[i].v.sh.kind == KSlice {
			a := args[i].v
			if a.sh.elem.ncomp() != 1 || a.sh.elem.kind == KBool {
				unsupp("contract: %s cannot take a slice of %s as a sequence of scalar values", sf.Name, a.sh.elem.key)
			}
			args[i] = CV{k: cvStr, arr: fx.sliceBacking(e.st, a.sh.elem, a.slRef(), 0), off: a.slOff(), n: a.slLen()}
		}
		flat = append(flat, flattenCV(args[i], pt)...)
	}
	rt := e.specTypeOf(sf.Result)
	name := "|sf." + sf.Name + "|"
	if len(rt.sorts) == 1 {
		t := app(name, flat...)
		res := unflattenCV([]T{t}, rt, arrLenOfType(sf.Result))
		if sf.Body == nil && len(sf.Ensures) > 0 && len(e.bound) == 0 {
			e.instantiateSpecFnEnsures(sf, args, res)
		}
		return res
	}
	// multi-component results: one function per component
	var ts []T
	for c := range rt.sorts {
		ts = append(ts, app(fmt.Sprintf("|sf.%s.%d|", sf.Name, c), flat...))
	}
	res := unflattenCV(ts, rt, "0")
	if sf.Body == nil && len(sf.Ensures) > 0 && len(e.bound) == 0 {
		e.instantiateSpecFnEnsures(sf, args, res)
	}
	return res
}

func (e *Env) instantiateSpecFnEnsures(sf *SpecFn, args []CV, res CV) {
	fx := e.fx
	key := sf.Name + "(" + fmt.Sprint(args) + ")"
	if fx.sfInst[key] {
		return
	}
	fx.sfInst[key] = true
	ne := &Env{fx: fx, vars: map[string]CV{}, st: e.st, pkg: fx.eng.pkgOf(sf.Pkg), bound: map[string]bool{}}
	for i, p := range sf.Params {
		ne.vars[p.Name] = args[i]
	}
	ne.vars["result"] = res
	for _, c := range sf.Ensures {
		c := c
		fx.assumes = append(fx.assumes, fx.hyp(func() T { return ne.eval(c.E).asBool() }))
	}
}

// emitSpecFn adds the SMT definition of a spec function to the declarations.
func (fx *FnCtx) emitSpecFn(sf *SpecFn) {
	if fx.specFnState[sf.Name] != 0 {
		return
	}
	fx.specFnState[sf.Name] = 1
	e := &Env{fx: fx, vars: map[string]CV{}, pkg: fx.eng.pkgOf(sf.Pkg), bound: map[string]bool{"defn": true}}
	e.st = &State{guard: "true", cells: map[*Cell]Val{}, heaps: map[string]T{}, alloc: "0"}
	var params []string
	for _, p := range sf.Params {
		st := e.specTypeOf(p.Type)
		var ts []T
		for c, so := range st.sorts {
			n := fmt.Sprintf("p_%s_%d", p.Name, c)
			params = append(params, fmt.Sprintf("(%s %s)", n, so))
			ts = append(ts, n)
		}
		e.vars[p.Name] = unflattenCV(ts, st, arrLenOfType(p.Type))
	}
	rt := e.specTypeOf(sf.Result)
	name := "|sf." + sf.Name + "|"
	if sf.Body == nil {
		var ps []string
		for _, p := range sf.Params {
			ps = append(ps, e.specTypeOf(p.Type).sorts...)
		}
		if len(rt.sorts) == 1 {
			fx.decls.Raw(fmt.Sprintf("(declare-fun %s (%s) %s)", name, strings.Join(ps, " "), rt.sorts[0]))
		} else {
			for c, so := range rt.sorts {
				fx.decls.Raw(fmt.Sprintf("(declare-fun |sf.%s.%d| (%s) %s)", sf.Name, c, strings.Join(ps, " "), so))
			}
		}
		fx.specFnState[sf.Name] = 2
		// global axiom with the application as trigger
		if len(sf.Ensures) > 0 && len(rt.sorts) == 1 {
			var flat []T
			for _, p := range sf.Params {
				flat = append(flat, flattenCV(e.vars[p.Name], e.specTypeOf(p.Type))...)
			}
			appl := app(name, flat...)
			e.vars["result"] = unflattenCV([]T{appl}, rt, arrLenOfType(sf.Result))
			var posts []T
			for _, c := range sf.Ensures {
				posts = append(posts, e.eval(c.E).asBool())
			}
			// parameters are constrained by their type invariants
			var pre []T
			for _, p := range sf.Params {
				if st := e.specTypeOf(p.Type); st.k == cvStr {
					cv := e.vars[p.Name]
					pre = append(pre, le("0", cv.off), le("0", cv.n))
				}
			}
			if sf.Opaque {
				// nested quantifiers: only ground instances (added at each
				// use) are given to the solver
			} else if len(params) > 0 {
				fx.decls.Raw(fmt.Sprintf("(assert (forall (%s) (! %s :pattern (%s))))", strings.Join(params, " "), imp(and(pre...), and(posts...)), appl))
			} else {
				fx.decls.Raw(fmt.Sprintf("(assert %s)", and(posts...)))
			}
		}
		return
	}
	if len(rt.sorts) != 1 {
		unsupp("spec fn %s: defined functions must have a scalar result", sf.Name)
	}
	body := e.eval(sf.Body)
	var bt T
	switch rt.k {
	case cvInt:
		bt = body.asInt()
	case cvBool:
		bt = body.asBool()
	case cvArr:
		bt = body.t
	default:
		bt = flattenCV(body, rt)[0]
	}
	kw := "define-fun"
	if sf.Recursive {
		kw = "define-fun-rec"
	}
	if sf.Hidden && !fx.reveal[sf.Name] {
		// only the function symbol: facts about it come from lemmas
		var sorts []string
		for _, p := range sf.Params {
			sorts = append(sorts, e.specTypeOf(p.Type).sorts...)
		}
		fx.decls.Raw(fmt.Sprintf("(declare-fun %s (%s) %s)", name, strings.Join(sorts, " "), rt.sorts[0]))
		fx.specFnState[sf.Name] = 2
		return
	}
	if sf.Opaque && !sf.Recursive && len(params) > 0 {
		// quantified definitions stay behind a function symbol (congruence
		// identifies applications on equal arguments; the body is available
		// through the defining axiom, triggered by the application)
		var sorts, names []string
		for _, p := range sf.Params {
			sorts = append(sorts, e.specTypeOf(p.Type).sorts...)
		}
		for _, p := range params {
			names = append(names, strings.Fields(strings.Trim(p, "()"))[0])
		}
		appl := app(name, names...)
		fx.decls.Raw(fmt.Sprintf("(declare-fun %s (%s) %s)", name, strings.Join(sorts, " "), rt.sorts[0]))
		fx.decls.Raw(fmt.Sprintf("(assert (forall (%s) (! (= %s %s) :pattern (%s))))", strings.Join(params, " "), appl, bt, appl))
		fx.specFnState[sf.Name] = 2
		return
	}
	fx.decls.Raw(fmt.Sprintf("(%s %s (%s) %s %s)", kw, name, strings.Join(params, " "), rt.sorts[0], bt))
	fx.specFnState[sf.Name] = 2
}

// mkForall builds (forall ((bv Int)) (=> guard body)); when body is itself a
// universal quantifier (possibly under its own range guard) the two are merged
// into one quantifier over both variables - the solvers infer no trigger for
// an outer variable that occurs only inside a nested quantifier, which left
// "forall k: forall j: ..." hypotheses unused.
func mkForall(bv string, guard T, body T) T {
	plain := fmt.Sprintf("(forall ((%s Int)) %s)", bv, imp(guard, body))
	if os.Getenv("GOVC_NO_FLATTEN") != "" {
		return plain
	}
	inner := body
	g2 := T("true")
	if strings.HasPrefix(inner, "(=> ") {
		parts := topLevelParts(inner)
		if len(parts) == 3 && strings.HasPrefix(parts[2], "(forall ((") {
			g2 = parts[1]
			inner = parts[2]
		}
	}
	if !strings.HasPrefix(inner, "(forall ((") {
		return plain
	}
	parts := topLevelParts(inner)
	if len(parts) != 3 || strings.Contains(parts[2], ":pattern") {
		return plain
	}
	binders := strings.TrimSuffix(strings.TrimPrefix(parts[1], "("), ")")
	return fmt.Sprintf("(forall ((%s Int) %s) %s)", bv, binders, imp(and(guard, g2), parts[2]))
}

// topLevelParts splits "(a b c)" into its top-level elements a, b, c.
func topLevelParts(s string) []string {
	if len(s) < 2 || s[0] != '(' || s[len(s)-1] != ')' {
		return nil
	}
	s = s[1 : len(s)-1]
	var out []string
	depth, start := 0, -1
	inBar := false
	for i := 0; i < len(s); i++ {
		c := s[i]
		if c == '|' {
			inBar = !inBar
		}
		if inBar {
			if start < 0 {
				start = i
			}
			continue
		}
		switch {
		case c == '(':
			if depth == 0 && start < 0 {
				start = i
			}
			depth++
		case c == ')':
			depth--
			if depth == 0 && start >= 0 && s[start] == '(' {
				out = append(out, s[start:i+1])
				start = -1
			}
		case c == ' ' || c == '\n' || c == '\t':
			if depth == 0 && start >= 0 {
				out = append(out, s[start:i])
				start = -1
			}
		default:
			if start < 0 {
				start = i
			}
		}
	}
	if start >= 0 {
		out = append(out, s[start:])
	}
	return out
}
