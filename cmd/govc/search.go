package main

import (
	"encoding/json"
	"fmt"
	"go/constant"
	"go/types"
	"os"
	"os/exec"
	"path/filepath"
	"sort"
	"strconv"
	"strings"
	"time"

	"golang.org/x/tools/go/ssa"
)

// Bounded search for a failing input of one function against its own
// contract.
//
// Used only after the prover has already failed to discharge an obligation of
// the function (or can no longer bind the function's loop contract to the
// code) and its answer carries no input that reproduces on the real code:
// every tuple of short strings over the bytes and literals the function
// compares with is run through the REAL function, and every postcondition of
// its contract that is fully defined (no uninterpreted symbol, hidden
// recursive definitions revealed) is evaluated by the solver on the concrete
// input and the observed result.  A case on which the real code panics or a
// postcondition is false is a failing input of the real code.  Finding none
// decides nothing.  Bound: stated in the replay file.

type searchHit struct {
	inputs   []string
	observed string
	clause   string
	panicked bool
	hung     bool
	cases    int
	bound    string
	test     string
	pkgDir   string
}

func searchAlphabet(fn *ssa.Function, maxAlpha int) (alpha []byte, literals []string) {
	seen := map[byte]bool{}
	add := func(b byte) {
		if !seen[b] && len(alpha) < maxAlpha {
			seen[b] = true
			alpha = append(alpha, b)
		}
	}
	var scan func(f *ssa.Function, depth int)
	scan = func(f *ssa.Function, depth int) {
		for _, bl := range f.Blocks {
			for _, in := range bl.Instrs {
				for _, op := range in.Operands(nil) {
					if c, ok := (*op).(*ssa.Const); ok && c.Value != nil {
						switch c.Value.Kind() {
						case constant.Int:
							if v, ok := constant.Int64Val(c.Value); ok && v >= 32 && v < 127 {
								add(byte(v))
							}
						case constant.String:
							if lit := constant.StringVal(c.Value); len(lit) > 0 && len(lit) <= 64 && len(literals) < 12 {
								literals = append(literals, lit)
							}
							for _, ch := range []byte(constant.StringVal(c.Value)) {
								add(ch)
							}
						}
					}
				}
				if call, ok := in.(*ssa.Call); ok && depth < 1 {
					if cf := call.Call.StaticCallee(); cf != nil && inModule(cf) && len(cf.Blocks) > 0 {
						scan(cf, depth+1)
					}
				}
			}
		}
	}
	scan(fn, 0)
	for _, b := range []byte{'a', '0', '.', '-', 0x80} {
		add(b)
	}
	return alpha, literals
}

// searchCandidates: all strings up to maxLen over alpha, plus the function's
// literals and simple variations of them.
func searchCandidates(alpha []byte, literals []string, maxLen int) []string {
	cands := []string{""}
	prev := []string{""}
	for l := 1; l <= maxLen; l++ {
		var cur []string
		for _, p := range prev {
			for _, c := range alpha {
				cur = append(cur, p+string([]byte{c}))
			}
		}
		cands = append(cands, cur...)
		prev = cur
	}
	seen := map[string]bool{}
	for _, c := range cands {
		seen[c] = true
	}
	for _, lit := range literals {
		for _, v := range []string{lit, lit[1:], lit[:len(lit)-1], "a" + lit, lit + "a", "." + lit, lit + ".", "a." + lit, "a" + lit[1:], "1" + lit, lit + "1"} {
			if !seen[v] {
				seen[v] = true
				cands = append(cands, v)
			}
		}
	}
	return cands
}

// searchEligible: runnable = the real function can be run on short strings
// (panics and calls that do not return are then observable); observable = its
// results can also be compared with the postconditions.
func searchEligible(fn *ssa.Function, spec *FuncSpec) (runnable, observable bool) {
	if fn == nil || fn.Pkg == nil || fn.Parent() != nil || fn.Signature.Recv() != nil || spec == nil {
		return false, false
	}
	if len(fn.Params) == 0 || len(fn.Params) > 2 || fn.TypeParams().Len() > 0 {
		return false, false
	}
	for _, p := range fn.Params {
		if b, ok := p.Type().Underlying().(*types.Basic); !ok || b.Kind() != types.String {
			return false, false
		}
	}
	if len(spec.Requires) > 0 {
		return false, false // inputs would have to satisfy a precondition
	}
	if len(spec.Ensures) == 0 {
		return true, false
	}
	res := fn.Signature.Results()
	for i := 0; i < res.Len(); i++ {
		switch sh := shapeOf(res.At(i).Type()); sh.kind {
		case KInt, KBool, KStr:
		case KIface:
			if !types.Identical(res.At(i).Type(), types.Universe.Lookup("error").Type()) {
				return true, false
			}
		default:
			return true, false
		}
	}
	return true, true
}

// searchContract runs the bounded search for fn; hit == nil when nothing was
// found (or the function is outside the search's reach).
func searchContract(eng *Engine, fn *ssa.Function) (hit *searchHit) {
	spec := eng.specFor(fn)
	dbg := func(format string, a ...any) {
		if os.Getenv("GOVC_DEBUG_SEARCH") != "" {
			fmt.Fprintf(os.Stderr, "search %s: "+format+"\n", append([]any{fn.Name()}, a...)...)
		}
	}
	runnable, observable := searchEligible(fn, spec)
	if !runnable {
		dbg("not eligible")
		return nil
	}
	defer func() {
		if r := recover(); r != nil {
			if _, isU := r.(unsupported); isU {
				hit = nil
				return
			}
			panic(r)
		}
	}()
	// a fresh evaluation context in which hidden definitions are visible
	fx := eng.newFnCtx(fn)
	fx.reveal = map[string]bool{}
	fx.defineByEnsures = true
	for n, sf := range eng.contracts.SpecFns {
		if sf.Hidden {
			fx.reveal[n] = true
		}
	}
	init := &State{guard: "true", cells: map[*Cell]Val{}, heaps: map[string]T{}, alloc: "0"}
	env := &Env{fx: fx, vars: map[string]CV{}, st: init, old: init, bound: map[string]bool{}, pkg: fn.Pkg.Pkg}
	var params []Val
	for _, p := range fn.Params {
		v := freshVal(fx.decls, shapeOf(p.Type()), "in_"+p.Name())
		params = append(params, v)
		env.vars[p.Name()] = cvOf(v)
	}
	env.oldV = map[string]CV{}
	for i, p := range fn.Params {
		env.oldV[p.Name()] = cvOf(params[i])
	}
	results := fn.Signature.Results()
	var resVals []Val
	for i := 0; observable && i < results.Len(); i++ {
		v := freshVal(fx.decls, shapeOf(results.At(i).Type()), "obs")
		resVals = append(resVals, v)
		n := results.At(i).Name()
		if n == "" || n == "_" {
			n = fmt.Sprintf("result%d", i)
		}
		env.vars[n] = cvOf(v)
		env.vars[fmt.Sprintf("result%d", i)] = cvOf(v)
		if results.Len() == 1 {
			env.vars["result"] = cvOf(v)
		}
	}
	for _, l := range spec.Lets {
		if !observable {
			break
		}
		e, err := parseExpr(l.Type)
		if err != nil {
			return nil
		}
		env.vars[l.Name] = env.eval(e)
	}
	// the postconditions that are fully defined: evaluating them must not
	// introduce any uninterpreted function symbol (an uninterpreted symbol
	// could make a true clause "false" in some model)
	type usable struct {
		label string
		t     T
	}
	var clauses []usable
	var defs []T // definitions of string constants met while evaluating
	for i := range spec.Ensures {
		if !observable {
			break // only panics and calls that do not return are looked for
		}
		c := spec.Ensures[i]
		before := len(fx.decls.Text())
		nAssume := len(fx.assumes)
		t, ok := func() (t T, ok bool) {
			defer func() {
				if r := recover(); r != nil {
					if _, isU := r.(unsupported); isU {
						ok = false
						return
					}
					panic(r)
				}
			}()
			return env.eval(c.E).asBool(), true
		}()
		if !ok {
			continue
		}
		added := fx.decls.Text()[before:]
		bad := declaresFunction(added)
		var newDefs []T
		for _, a := range fx.assumes[nAssume:] {
			if isGroundDefinition(a) {
				newDefs = append(newDefs, a)
			} else {
				bad = true
			}
		}
		if bad {
			continue
		}
		defs = append(defs, newDefs...)
		clauses = append(clauses, usable{clauseName(c, i), t})
	}
	dbg("%d usable clauses of %d", len(clauses), len(spec.Ensures))
	// candidates
	alpha, literals := searchAlphabet(fn, 7)
	maxLen := 4
	if len(fn.Params) == 2 {
		maxLen = 2
	}
	cands := searchCandidates(alpha, literals, maxLen)
	var tuples [][]string
	if len(fn.Params) == 1 {
		for _, c := range cands {
			tuples = append(tuples, []string{c})
		}
	} else {
		for _, a := range cands {
			for _, b := range cands {
				tuples = append(tuples, []string{a, b})
			}
		}
	}
	if len(tuples) > 6000 {
		tuples = tuples[:6000]
	}
	bound := fmt.Sprintf("%d input tuples: every string of length <= %d over the bytes %q (taken from the function's own comparisons, plus a few generic ones) and variations of its string literals", len(tuples), maxLen, string(alpha))
	// run the real function on all of them
	own := fn.Pkg.Pkg
	var src strings.Builder
	fmt.Fprintf(&src, "package %s\n\nimport (\n\t\"fmt\"\n\t\"os\"\n\t\"sync/atomic\"\n\t\"testing\"\n\t\"time\"\n)\n\n", own.Name())
	src.WriteString(`func govcShowS(name string, v any) {
	switch x := v.(type) {
	case string:
		fmt.Fprintf(os.Stdout, "GOVC-RESULT %s string %x\n", name, x)
	case error:
		if x == nil {
			fmt.Fprintf(os.Stdout, "GOVC-RESULT %s nil\n", name)
		} else {
			fmt.Fprintf(os.Stdout, "GOVC-RESULT %s error %T %q\n", name, x, x.Error())
		}
	case nil:
		fmt.Fprintf(os.Stdout, "GOVC-RESULT %s nil\n", name)
	default:
		fmt.Fprintf(os.Stdout, "GOVC-RESULT %s value %v\n", name, x)
	}
}

`)
	// a watchdog: a case that has not returned after 15 s (the others take
	// microseconds) is reported and ends the run
	src.WriteString(`var govcCur atomic.Int64

func govcWatch() {
	last, since := int64(-1), time.Now()
	for {
		time.Sleep(500 * time.Millisecond)
		c := govcCur.Load()
		if c != last {
			last, since = c, time.Now()
			continue
		}
		if time.Since(since) > 15*time.Second {
			fmt.Fprintf(os.Stdout, "\nGOVC-CASE-HANG %d\n", c)
			os.Exit(3)
		}
	}
}

`)
	src.WriteString("func TestGovcReplay(t *testing.T) {\n\tgo govcWatch()\n\tcases := [][]string{\n")
	for _, tu := range tuples {
		src.WriteString("\t\t{")
		for _, s := range tu {
			fmt.Fprintf(&src, "%q, ", s)
		}
		src.WriteString("},\n")
	}
	src.WriteString("\t}\n\tfor i, c := range cases {\n\t\tgovcCur.Store(int64(i))\n\t\tfunc() {\n\t\t\tdefer func() {\n\t\t\t\tif r := recover(); r != nil {\n\t\t\t\t\tfmt.Fprintf(os.Stdout, \"GOVC-CASE-PANIC %d %v\\n\", i, r)\n\t\t\t\t}\n\t\t\t}()\n")
	var lhs []string
	for i := 0; i < results.Len(); i++ {
		lhs = append(lhs, fmt.Sprintf("r%d", i))
	}
	call := fn.Name() + "(c[0])"
	if len(fn.Params) == 2 {
		call = fn.Name() + "(c[0], c[1])"
	}
	if len(lhs) > 0 {
		fmt.Fprintf(&src, "\t\t\t%s := %s\n", strings.Join(lhs, ", "), call)
	} else {
		fmt.Fprintf(&src, "\t\t\t%s\n", call)
	}
	src.WriteString("\t\t\tfmt.Fprintf(os.Stdout, \"GOVC-CASE %d\\n\", i)\n")
	for i := range lhs {
		fmt.Fprintf(&src, "\t\t\tgovcShowS(\"result%d\", r%d)\n", i, i)
	}
	src.WriteString("\t\t}()\n\t}\n\tfmt.Fprintln(os.Stdout, \"GOVC-SEARCH-DONE\")\n}\n")
	pkgDir := ""
	for _, p := range eng.pkgs {
		if p.Types == own && len(p.GoFiles) > 0 {
			pkgDir = filepath.Dir(p.GoFiles[0])
		}
	}
	if pkgDir == "" {
		return nil
	}
	out := runReplayTestT(eng.repo, pkgDir, src.String(), 120)
	if !strings.Contains(out, "GOVC-SEARCH-DONE") {
		dbg("test did not complete: %s", truncate(out, 600))
		// one case did not return: confirmed by running that case alone
		for _, l := range strings.Split(out, "\n") {
			if !strings.HasPrefix(l, "GOVC-CASE-HANG ") {
				continue
			}
			i, err := strconv.Atoi(strings.TrimPrefix(l, "GOVC-CASE-HANG "))
			if err != nil || i < 0 || i >= len(tuples) {
				continue
			}
			var args []string
			for _, s := range tuples[i] {
				args = append(args, strconv.Quote(s))
			}
			one := fmt.Sprintf("package %s\n\nimport (\n\t\"fmt\"\n\t\"testing\"\n)\n\nfunc TestGovcReplay(t *testing.T) {\n\tfmt.Println(\"GOVC-ONE-START\")\n\t%s(%s)\n\tfmt.Println(\"GOVC-ONE-END\")\n}\n", own.Name(), fn.Name(), strings.Join(args, ", "))
			alone := runReplayTestT(eng.repo, pkgDir, one, 30)
			dbg("alone: %s", truncate(alone, 300))
			if strings.Contains(alone, "GOVC-ONE-START") && !strings.Contains(alone, "GOVC-ONE-END") && strings.Contains(alone, "timed out") {
				return &searchHit{inputs: tuples[i], observed: "the call did not return within 30 s (run alone; 15 s within the batch, where the other inputs take microseconds)", hung: true, cases: len(tuples), bound: bound, test: oneCaseTest(own.Name(), fn, tuples[i]), pkgDir: pkgDir}
			}
		}
		return nil
	}
	// parse
	type obs struct {
		idx   int
		lines map[string][]string
	}
	var observed []obs
	var cur *obs
	for _, l := range strings.Split(out, "\n") {
		switch {
		case strings.HasPrefix(l, "GOVC-CASE-PANIC "):
			f := strings.SplitN(strings.TrimPrefix(l, "GOVC-CASE-PANIC "), " ", 2)
			if i, err := strconv.Atoi(f[0]); err == nil && i < len(tuples) {
				msg := ""
				if len(f) > 1 {
					msg = f[1]
				}
				return &searchHit{inputs: tuples[i], observed: "panic: " + msg, panicked: true, cases: len(tuples), bound: bound, test: oneCaseTest(own.Name(), fn, tuples[i]), pkgDir: pkgDir}
			}
		case strings.HasPrefix(l, "GOVC-CASE "):
			if i, err := strconv.Atoi(strings.TrimPrefix(l, "GOVC-CASE ")); err == nil {
				observed = append(observed, obs{idx: i, lines: map[string][]string{}})
				cur = &observed[len(observed)-1]
			}
		default:
			if m := resultLine.FindStringSubmatch(l); m != nil && cur != nil {
				cur.lines[m[1]] = []string{m[2], m[3]}
			}
		}
	}
	if len(clauses) == 0 {
		return nil
	}
	// one solver session: for every case, are all usable clauses true?
	pinStr := func(v Val, s string) []T {
		pins := []T{eq(v.strOff(), "0"), eq(v.strLen(), num(int64(len(s))))}
		for k := 0; k < len(s); k++ {
			pins = append(pins, eq(sel(v.strArr(), num(int64(k))), num(int64(s[k]))))
		}
		return pins
	}
	casePins := func(o obs) ([]T, bool) {
		var pins []T
		for i, v := range params {
			pins = append(pins, pinStr(v, tuples[o.idx][i])...)
		}
		for i, v := range resVals {
			ol := o.lines[fmt.Sprintf("result%d", i)]
			if ol == nil {
				return nil, false
			}
			switch v.sh.kind {
			case KBool:
				pins = append(pins, eq(v.t(), ol[1]))
			case KInt:
				n, err := strconv.ParseInt(ol[1], 10, 64)
				if err != nil {
					return nil, false
				}
				pins = append(pins, eq(v.t(), num(n)))
			case KStr:
				var bs []byte
				fmt.Sscanf(ol[1], "%x", &bs)
				pins = append(pins, pinStr(v, string(bs))...)
			case KIface:
				if ol[0] == "nil" {
					pins = append(pins, eq(v.ifTyp(), "0"), eq(v.ifBox(), "0"))
				} else {
					tid := int64(900000)
					fields := strings.Fields(ol[1])
					if len(fields) > 0 {
						for _, ty := range eng.tids.typs {
							if types.TypeString(ty, func(p *types.Package) string { return p.Name() }) == fields[0] {
								tid = int64(eng.tids.id(ty))
							}
						}
					}
					pins = append(pins, eq(v.ifTyp(), num(tid)), not(eq(v.ifBox(), "0")))
				}
			default:
				return nil, false
			}
		}
		return pins, true
	}
	var all []T
	for _, c := range clauses {
		all = append(all, c.t)
	}
	var b strings.Builder
	b.WriteString(eng.prelude)
	b.WriteString(fx.decls.Text())
	for _, d := range defs {
		b.WriteString("(assert " + d + ")\n")
	}
	var idxs []int
	for k, o := range observed {
		pins, ok := casePins(o)
		if !ok {
			continue
		}
		idxs = append(idxs, k)
		b.WriteString("(push)\n")
		for _, p := range pins {
			b.WriteString("(assert " + p + ")\n")
		}
		b.WriteString("(assert (not " + and(all...) + "))\n(check-sat)\n(pop)\n")
	}
	answers := runSolverSession(b.String(), 180)
	dbg("%d cases observed, %d answers", len(observed), len(answers))
	for n, a := range answers {
		if n >= len(idxs) || a != "sat" {
			continue
		}
		o := observed[idxs[n]]
		// which clause?
		pins, _ := casePins(o)
		which := ""
		for _, c := range clauses {
			var q strings.Builder
			q.WriteString(eng.prelude)
			q.WriteString(fx.decls.Text())
			for _, d := range defs {
				q.WriteString("(assert " + d + ")\n")
			}
			for _, p := range pins {
				q.WriteString("(assert " + p + ")\n")
			}
			q.WriteString("(assert (not " + c.t + "))\n(check-sat)\n")
			if r := runSolverSession(q.String(), 20); len(r) == 1 && r[0] == "sat" {
				which = c.label
				break
			}
		}
		if which == "" {
			continue // not confirmed clause by clause: not used
		}
		var keys []string
		for k := range o.lines {
			keys = append(keys, k)
		}
		sort.Strings(keys)
		var ob []string
		for _, k := range keys {
			ob = append(ob, k+" = "+strings.Join(o.lines[k], " "))
		}
		return &searchHit{inputs: tuples[o.idx], observed: strings.Join(ob, "; "), clause: which, cases: len(tuples), bound: bound, test: oneCaseTest(own.Name(), fn, tuples[o.idx]), pkgDir: pkgDir}
	}
	return nil
}

// searchViolation: the bounded search for the function of obligation o (run
// once per function and check); on a hit the obligation's replay file is
// (re)written with the failing input.
func (run *checkRun) searchViolation(eng *Engine, r *FuncResult, o *Obligation, outDir string) (violation, bool) {
	if r.Ctx == nil || r.Ctx.root == nil {
		return violation{}, false
	}
	hit, done := run.searchDone[r.Key]
	if !done {
		hit = searchContract(eng, r.Ctx.root)
		run.searchDone[r.Key] = hit
	}
	if hit == nil {
		return violation{}, false
	}
	dir := filepath.Join(outDir, "replay", run.prop.ID)
	os.MkdirAll(dir, 0o755)
	path := filepath.Join(dir, sanitize(o.Name)+".json")
	doc := &replayDoc{Property: run.prop.ID, Obligation: o.Name, Kind: o.Kind, Function: r.Key,
		Source: fmt.Sprintf("%s:%d", o.Pos.Filename, o.Pos.Line), Clause: o.Clause, Status: o.Result.Status,
		Solver: o.Result.Solver, SolverOut: o.Result.Outputs, ReplayedAt: time.Now().UTC().Format(time.RFC3339),
		Verdict: "reproduced", TestSource: hit.test, PkgDir: hit.pkgDir, Observed: hit.observed}
	if old, err := os.ReadFile(path); err == nil {
		var prev replayDoc
		if json.Unmarshal(old, &prev) == nil {
			doc.SMTFile = prev.SMTFile
		}
	}
	for i, s := range hit.inputs {
		doc.Inputs = append(doc.Inputs, fmt.Sprintf("argument %d = %q", i, s))
	}
	what := "postcondition '" + hit.clause + "' of the function's contract is FALSE on the observed behaviour of the real code"
	if hit.panicked {
		what = "the real function panics"
	}
	if hit.hung {
		what = "the real function does not return"
	}
	doc.Note = "the prover's answer carries no input that reproduces (no model, a model behind a loop cut or a callee contract, or a loop contract that no longer binds to the code); found by a BOUNDED search instead: the real function was run on " + hit.bound + "; on this input " + what
	doc.ClauseCheck = what
	b, _ := json.MarshalIndent(doc, "", " ")
	os.WriteFile(path, b, 0o644)
	return violation{obligation: o.Name, replay: path, reproduced: true, detail: hit.observed}, true
}

// declaresFunction: does the SMT text declare an uninterpreted symbol with
// arguments?
func declaresFunction(text string) bool {
	for _, l := range strings.Split(text, "\n") {
		l = strings.TrimSpace(l)
		if strings.HasPrefix(l, "(declare-fun ") {
			// (declare-fun name (args) sort): constants have "()"
			i := strings.Index(l, " (")
			if i < 0 || !strings.HasPrefix(l[i+1:], "() ") {
				return true
			}
		}
		if strings.HasPrefix(l, "(assert (forall") {
			return true // an axiomatised symbol
		}
	}
	return false
}

// runSolverSession feeds one script with several check-sat commands to z3-new
// and returns the answers in order.
func runSolverSession(script string, cpuS int) []string {
	dir, err := os.MkdirTemp("", "govc-s")
	if err != nil {
		return nil
	}
	defer os.RemoveAll(dir)
	file := filepath.Join(dir, "s.smt2")
	if os.WriteFile(file, []byte(script), 0o644) != nil {
		return nil
	}
	cmd := exec.Command("prlimit", fmt.Sprintf("--cpu=%d", cpuS), "--", "z3-new", fmt.Sprintf("-T:%d", 4*cpuS), "-smt2", file)
	out, _ := cmd.CombinedOutput()
	var ans []string
	for _, l := range strings.Split(string(out), "\n") {
		switch strings.TrimSpace(l) {
		case "sat", "unsat", "unknown":
			ans = append(ans, strings.TrimSpace(l))
		}
	}
	return ans
}

func oneCaseTest(pkg string, fn *ssa.Function, in []string) string {
	var args []string
	for _, s := range in {
		args = append(args, strconv.Quote(s))
	}
	return fmt.Sprintf("package %s\n\nimport (\n\t\"fmt\"\n\t\"testing\"\n)\n\nfunc TestGovcReplay(t *testing.T) {\n\tfmt.Println(%s(%s))\n}\n", pkg, fn.Name(), strings.Join(args, ", "))
}
