package main

// SMT-LIB term construction (terms are plain s-expression strings) and the
// solver racing back end.

import (
	"bytes"
	"context"
	"fmt"
	"math/big"
	"os"
	"os/exec"
	"path/filepath"
	"sort"
	"strings"
	"sync"
	"time"
)

// T is an SMT-LIB term.
type T = string

const (
	sInt  = "Int"
	sBool = "Bool"
	sArr  = "(Array Int Int)"
	sArr2 = "(Array Int (Array Int Int))"
)

func arrSort(elem string) string { return "(Array Int " + elem + ")" }

func num(i int64) T {
	if i < 0 {
		return fmt.Sprintf("(- %d)", -i)
	}
	return fmt.Sprintf("%d", i)
}

func numBig(b *big.Int) T {
	if b.Sign() < 0 {
		return "(- " + new(big.Int).Neg(b).String() + ")"
	}
	return b.String()
}

func pow2(n uint) *big.Int { return new(big.Int).Lsh(big.NewInt(1), n) }

func app(op string, args ...T) T {
	if len(args) == 0 {
		return op
	}
	return "(" + op + " " + strings.Join(args, " ") + ")"
}

func tTrue() T  { return "true" }
func tFalse() T { return "false" }

func and(args ...T) T {
	var out []T
	for _, a := range args {
		if a == "true" {
			continue
		}
		if a == "false" {
			return "false"
		}
		out = append(out, a)
	}
	switch len(out) {
	case 0:
		return "true"
	case 1:
		return out[0]
	}
	return app("and", out...)
}

func or(args ...T) T {
	var out []T
	for _, a := range args {
		if a == "false" {
			continue
		}
		if a == "true" {
			return "true"
		}
		out = append(out, a)
	}
	switch len(out) {
	case 0:
		return "false"
	case 1:
		return out[0]
	}
	return app("or", out...)
}

func not(a T) T {
	switch a {
	case "true":
		return "false"
	case "false":
		return "true"
	}
	if strings.HasPrefix(a, "(not ") {
		return a[5 : len(a)-1]
	}
	return app("not", a)
}

func imp(a, b T) T {
	if a == "true" {
		return b
	}
	if a == "false" || b == "true" {
		return "true"
	}
	return app("=>", a, b)
}

func eq(a, b T) T {
	if a == b {
		return "true"
	}
	return app("=", a, b)
}

func ite(c, a, b T) T {
	if c == "true" {
		return a
	}
	if c == "false" {
		return b
	}
	if a == b {
		return a
	}
	return app("ite", c, a, b)
}

func sel(a, i T) T      { return app("select", a, i) }
func store(a, i, v T) T { return app("store", a, i, v) }
func add(a, b T) T {
	if a == "0" {
		return b
	}
	if b == "0" {
		return a
	}
	return app("+", a, b)
}
func sub(a, b T) T {
	if b == "0" {
		return a
	}
	return app("-", a, b)
}
func lt(a, b T) T { return app("<", a, b) }
func le(a, b T) T { return app("<=", a, b) }

// isNumLit reports whether t is a plain non-negative integer literal and
// returns its value.
func isNumLit(t T) (int64, bool) {
	if t == "" {
		return 0, false
	}
	// (+ a b) and (- a b) of numerals (lengths of sliced constants)
	if strings.HasPrefix(string(t), "(+ ") || strings.HasPrefix(string(t), "(- ") {
		f := strings.Fields(strings.TrimSuffix(string(t)[3:], ")"))
		if len(f) == 2 {
			a, ok1 := isNumLit(T(f[0]))
			b, ok2 := isNumLit(T(f[1]))
			if ok1 && ok2 {
				if t[1] == '+' {
					return a + b, true
				}
				if a >= b {
					return a - b, true
				}
			}
		}
		return 0, false
	}
	var v int64
	for _, c := range t {
		if c < '0' || c > '9' {
			return 0, false
		}
		v = v*10 + int64(c-'0')
		if v > 1<<40 {
			return 0, false
		}
	}
	return v, true
}

// ---------------------------------------------------------------------------
// Queries

// Decls collects declarations shared by all obligations of one function.
type Decls struct {
	mu    sync.Mutex
	order []string
	seen  map[string]bool
	n     int
}

func newDecls() *Decls { return &Decls{seen: map[string]bool{}} }

// Fresh declares a new constant of the given sort and returns its name.
func (d *Decls) Fresh(hint, sort string) T {
	d.mu.Lock()
	defer d.mu.Unlock()
	d.n++
	name := fmt.Sprintf("%s!%d", sanitize(hint), d.n)
	d.order = append(d.order, fmt.Sprintf("(declare-fun |%s| () %s)", name, sort))
	return "|" + name + "|"
}

// Raw adds a raw top-level command once (keyed by its text).
func (d *Decls) Raw(cmd string) {
	d.mu.Lock()
	defer d.mu.Unlock()
	if d.seen[cmd] {
		return
	}
	d.seen[cmd] = true
	d.order = append(d.order, cmd)
}

func (d *Decls) Text() string { return strings.Join(d.order, "\n") + "\n" }

// TextFor returns the declarations needed by the given assertions: every
// declaration and axiom, but of the defined functions (define-fun,
// define-fun-rec) only those that the assertions, the axioms or a kept
// definition mention.  A definition with a quantifier in its body acts on the
// solver like an axiom even when nothing uses it (an unused "exists"
// definition took one query from 0.1 s to a time-out).
func (d *Decls) TextFor(uses string) string {
	d.mu.Lock()
	defer d.mu.Unlock()
	keep := make([]bool, len(d.order))
	var ref strings.Builder
	ref.WriteString(uses)
	defName := func(l string) string {
		for _, kw := range []string{"(define-fun-rec ", "(define-fun "} {
			if strings.HasPrefix(l, kw) {
				rest := l[len(kw):]
				if i := strings.IndexByte(rest, ' '); i > 0 {
					return rest[:i]
				}
			}
		}
		return ""
	}
	for i, l := range d.order {
		if defName(l) == "" {
			keep[i] = true
			ref.WriteString(l)
			ref.WriteByte('\n')
		}
	}
	text := ref.String()
	for i := len(d.order) - 1; i >= 0; i-- {
		if keep[i] {
			continue
		}
		if n := defName(d.order[i]); strings.Contains(text, n+" ") || strings.Contains(text, n+")") {
			keep[i] = true
			text += d.order[i] + "\n"
		}
	}
	var b strings.Builder
	for i, l := range d.order {
		if keep[i] {
			b.WriteString(l)
			b.WriteByte('\n')
		}
	}
	return b.String()
}

func sanitize(s string) string {
	var b strings.Builder
	for _, c := range s {
		switch {
		case c >= 'a' && c <= 'z', c >= 'A' && c <= 'Z', c >= '0' && c <= '9', c == '_', c == '.', c == '$':
			b.WriteRune(c)
		default:
			b.WriteByte('_')
		}
	}
	return b.String()
}

// SolverResult is the outcome of one obligation.
type SolverResult struct {
	Status  string // unsat | sat | unknown
	Solver  string
	Seconds float64
	Model   string
	Outputs map[string]string
}

type solverDef struct {
	name string
	args func(timeoutS int) []string
}

// Budgets are CPU time (prlimit --cpu), not wall-clock time: on a loaded
// machine a solver gets the same amount of work done as on an idle one, so a
// check does not start to fail because something else is running.  The
// wall-clock limit is only a backstop (eight times the CPU budget).
func limited(t int, argv ...string) []string {
	return append([]string{"prlimit", fmt.Sprintf("--cpu=%d", t), "--"}, argv...)
}

var solvers = []solverDef{
	{"z3-new", func(t int) []string { return limited(t, "z3-new", fmt.Sprintf("-T:%d", 8*t), "-smt2") }},
	{"z3", func(t int) []string { return limited(t, "z3", fmt.Sprintf("-T:%d", 8*t), "-smt2") }},
	// the same solver with other random seeds: quantifier-heavy goals that
	// the default seed misses are often closed by another one (an unsat
	// answer is sound whatever the seed)
	{"z3-new-s1", func(t int) []string {
		return limited(t, "z3-new", "smt.random_seed=1", fmt.Sprintf("-T:%d", 8*t), "-smt2")
	}},
	{"z3-new-s2", func(t int) []string {
		return limited(t, "z3-new", "smt.random_seed=2", fmt.Sprintf("-T:%d", 8*t), "-smt2")
	}},
	{"z3-new-nomb", func(t int) []string {
		return limited(t, "z3-new", "smt.mbqi=false", fmt.Sprintf("-T:%d", 8*t), "-smt2")
	}},
	// without z3's automatic choice of tactic: for some quantified goals the
	// choice depends on irrelevant ground facts being present, and the plain
	// SMT core closes them at once
	{"z3-new-noauto", func(t int) []string {
		return limited(t, "z3-new", "smt.auto_config=false", fmt.Sprintf("-T:%d", 8*t), "-smt2")
	}},
	{"cvc5", func(t int) []string {
		return limited(t, "cvc5", fmt.Sprintf("--tlimit=%d", 8*t*1000), "--lang=smt2", "--produce-models")
	}},
}

// solve decides one query: z3 5.1 alone first with a short budget (it
// decides almost everything in well under a second), then all installed
// solvers raced with the full timeout.
func solve(query string, timeoutS int, which []string, keepFile string) SolverResult {
	dir, err := os.MkdirTemp("", "govc-q")
	if err != nil {
		return SolverResult{Status: "unknown", Outputs: map[string]string{"error": err.Error()}}
	}
	defer os.RemoveAll(dir)
	file := filepath.Join(dir, "q.smt2")
	full := "(set-option :produce-models true)\n" + query + "(check-sat)\n(get-model)\n"
	if err := os.WriteFile(file, []byte(full), 0o644); err != nil {
		return SolverResult{Status: "unknown"}
	}
	if keepFile != "" {
		os.MkdirAll(filepath.Dir(keepFile), 0o755)
		os.WriteFile(keepFile, []byte(full), 0o644)
	}
	start := time.Now()
	first := 3
	if timeoutS < first {
		first = timeoutS
	}
	if len(which) == 0 || contains(which, "z3-new") {
		r := runSolvers(file, first, []string{"z3-new"})
		if r.Status != "unknown" {
			r.Seconds = time.Since(start).Seconds()
			return r
		}
	}
	r := runSolvers(file, timeoutS, which)
	r.Seconds = time.Since(start).Seconds()
	return r
}

func runSolvers(file string, timeoutS int, which []string) SolverResult {
	ctx, cancel := context.WithCancel(context.Background())
	defer cancel()
	ch := make(chan SolverResult, len(solvers))
	n := 0
	for _, s := range solvers {
		if len(which) > 0 && !contains(which, s.name) {
			continue
		}
		n++
		go func(s solverDef) {
			args := append(s.args(timeoutS), file)
			start := time.Now()
			cmd := exec.CommandContext(ctx, args[0], args[1:]...)
			var out bytes.Buffer
			cmd.Stdout = &out
			cmd.Stderr = &out
			cmd.Run()
			text := out.String()
			first := strings.TrimSpace(strings.SplitN(text, "\n", 2)[0])
			st := "unknown"
			switch first {
			case "sat", "unsat":
				st = first
			}
			r := SolverResult{Status: st, Solver: s.name, Seconds: time.Since(start).Seconds()}
			if st == "sat" {
				if i := strings.Index(text, "\n"); i >= 0 {
					r.Model = text[i+1:]
				}
			}
			r.Outputs = map[string]string{s.name: truncate(text, 400)}
			ch <- r
		}(s)
	}
	outs := map[string]string{}
	var last SolverResult
	for i := 0; i < n; i++ {
		r := <-ch
		for k, v := range r.Outputs {
			outs[k] = v
		}
		if r.Status == "sat" || r.Status == "unsat" {
			cancel()
			r.Outputs = outs
			return r
		}
		last = r
	}
	last.Status = "unknown"
	last.Outputs = outs
	return last
}

func truncate(s string, n int) string {
	if len(s) <= n {
		return s
	}
	return s[:n] + "…"
}

func contains(xs []string, x string) bool {
	for _, y := range xs {
		if x == y {
			return true
		}
	}
	return false
}

func sortedKeys[V any](m map[string]V) []string {
	ks := make([]string, 0, len(m))
	for k := range m {
		ks = append(ks, k)
	}
	sort.Strings(ks)
	return ks
}
