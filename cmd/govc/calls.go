package main

// Calls: inlining, contract application, builtins, defers, range iteration,
// maps.

import (
	"os"
	"fmt"
	"go/token"
	"go/types"
	"strings"

	"golang.org/x/tools/go/ssa"
)

const modulePrefix = "github.com/AdguardTeam/golibs"

func inModule(fn *ssa.Function) bool {
	if fn.Pkg != nil {
		return strings.HasPrefix(fn.Pkg.Pkg.Path(), modulePrefix)
	}
	if fn.Origin() != nil && fn.Origin().Pkg != nil {
		return strings.HasPrefix(fn.Origin().Pkg.Pkg.Path(), modulePrefix)
	}
	if p := fn.Parent(); p != nil {
		return inModule(p)
	}
	if fn.Object() != nil && fn.Object().Pkg() != nil {
		return strings.HasPrefix(fn.Object().Pkg().Path(), modulePrefix)
	}
	return false
}

// funcKey is the name under which contracts for fn are looked up.
func funcKey(fn *ssa.Function) string {
	if fn.Origin() != nil {
		fn = fn.Origin()
	}
	if p := fn.Parent(); p != nil {
		// anonymous function: Parent$N
		return funcKey(p) + strings.TrimPrefix(fn.Name(), p.Name())
	}
	pkg := ""
	if fn.Pkg != nil {
		pkg = fn.Pkg.Pkg.Path()
	} else if fn.Object() != nil && fn.Object().Pkg() != nil {
		pkg = fn.Object().Pkg().Path()
	}
	if recv := fn.Signature.Recv(); recv != nil {
		rt := recv.Type()
		star := ""
		if p, ok := rt.(*types.Pointer); ok {
			star = "*"
			rt = p.Elem()
		}
		name := ""
		if n, ok := rt.(*types.Named); ok {
			name = n.Obj().Name()
		} else {
			name = rt.String()
		}
		return fmt.Sprintf("%s.(%s%s).%s", pkg, star, name, fn.Name())
	}
	return pkg + "." + fn.Name()
}

func (fr *Frame) call(c *ssa.CallCommon, st *State, instr ssa.Instruction, pos token.Pos) *Val {
	var args []Val
	if c.IsInvoke() {
		recv := fr.val(c.Value)
		for _, a := range c.Args {
			args = append(args, fr.val(a))
		}
		return fr.invoke(recv, c.Method, args, st, pos, instr)
	}
	for _, a := range c.Args {
		args = append(args, fr.val(a))
	}
	if b, ok := c.Value.(*ssa.Builtin); ok {
		return fr.builtin(b.Name(), args, st, pos, instr)
	}
	if callee := c.StaticCallee(); callee != nil {
		var bindings []Val
		if mc, ok := c.Value.(*ssa.MakeClosure); ok {
			for _, b := range mc.Bindings {
				bindings = append(bindings, fr.val(b))
			}
		}
		return fr.callFunction(callee, args, bindings, st, pos, instr)
	}
	// dynamic call through a function value
	fv := fr.val(c.Value)
	return fr.callValue(fv, args, st, pos, instr, c.Signature())
}

func (fr *Frame) callValue(fv Val, args []Val, st *State, pos token.Pos, instr ssa.Instruction, sig *types.Signature) *Val {
	fx := fr.fx
	if len(fv.fns) == 0 {
		return fr.callUnknownFunc(fv, args, st, pos, sig)
	}
	if len(fv.fns) == 1 && fv.fns[0].cond == "true" {
		return fr.callAlt(fv.fns[0], args, st, pos, instr)
	}
	// several possible targets: execute each under its condition and merge
	var outs []edgeState
	var results []*Val
	var conds []T
	covered := []T{}
	for _, alt := range fv.fns {
		s := st.clone()
		s.guard = and(st.guard, alt.cond)
		r := fr.callAlt(alt, args, s, pos, instr)
		outs = append(outs, edgeState{cond: s.guard, st: s})
		results = append(results, r)
		conds = append(conds, s.guard)
		covered = append(covered, alt.cond)
	}
	fx.oblige("nil", fr.path+"/nil/funcvalue#", st, or(covered...), pos, "")
	m := fx.merge("callv", outs)
	*st = *m
	if results[0] == nil {
		return nil
	}
	var vs []Val
	for _, r := range results {
		vs = append(vs, *r)
	}
	mv := fx.mergeVals("callv", conds, vs)
	return &mv
}

func (fr *Frame) callAlt(alt FuncAlt, args []Val, st *State, pos token.Pos, instr ssa.Instruction) *Val {
	if alt.builtin != "" {
		return fr.builtin(alt.builtin, args, st, pos, instr)
	}
	if alt.bound != nil {
		args = append([]Val{*alt.bound}, args...)
	}
	return fr.callFunction(alt.fn, args, alt.bindings, st, pos, instr)
}

// hasRecoveringDefer: has the frame registered (on the current path) a
// deferred call whose function calls recover()?
func (fr *Frame) hasRecoveringDefer(st *State) bool {
	for _, d := range fr.defers {
		flag, ok := st.cells[d.flag]
		if !ok || flag.t() == "false" {
			continue
		}
		if callee := d.instr.Call.StaticCallee(); callee != nil && callsRecover(callee, 0) {
			return true
		}
	}
	return false
}

func callsRecover(fn *ssa.Function, depth int) bool {
	if fn == nil || depth > 2 {
		return false
	}
	for _, b := range fn.Blocks {
		for _, in := range b.Instrs {
			c, ok := in.(ssa.CallInstruction)
			if !ok {
				continue
			}
			if bi, ok := c.Common().Value.(*ssa.Builtin); ok && bi.Name() == "recover" {
				return true
			}
			if cf := c.Common().StaticCallee(); cf != nil && inModule(cf) && callsRecover(cf, depth+1) {
				return true
			}
		}
	}
	for _, an := range fn.AnonFuncs {
		if callsRecover(an, depth+1) {
			return true
		}
	}
	return false
}

// panicPoint is a place where code outside the contracts runs and may panic.
// If the function under verification recovers (a `recovers` clause), its
// named results as they are right now are what the caller will see.
func (fr *Frame) panicPoint(st *State, pos token.Pos, what string) {
	fx := fr.fx
	// a panic is stopped by the nearest enclosing call that has registered a
	// deferred function which recovers: for an inlined helper that call then
	// returns - after its deferred calls - with its named results as they are
	// at that moment (zero values for unnamed ones), and its caller goes on
	for i := len(fx.frameStack) - 1; i >= 0; i-- {
		f := fx.frameStack[i]
		if f.isRoot || f == fx.rootFrame {
			break
		}
		if !f.hasRecoveringDefer(st) || f.rets == nil {
			continue
		}
		pk := fx.decls.Fresh("panics", sBool)
		ps := st.clone()
		ps.guard = and(st.guard, pk)
		st.guard = and(st.guard, not(pk))
		f.runDefers(ps, pos)
		var vals []Val
		res := f.fn.Signature.Results()
		for k := 0; k < res.Len(); k++ {
			sh := shapeOf(res.At(k).Type())
			if n := res.At(k).Name(); n != "" && n != "_" {
				if v, ok := f.localByName(n, ps); ok {
					vals = append(vals, v)
					continue
				}
			}
			vals = append(vals, zeroVal(sh))
		}
		*f.rets = append(*f.rets, retPoint{st: ps, vals: vals})
		fx.noteAssumption("a panic raised by " + what + " inside " + f.fn.Name() + " is recovered by that function's deferred handler: it returns its named results as they are at that moment")
		return
	}
	root := fx.rootSpec
	if root == nil || len(root.Recovers) == 0 || fx.rootFrame == nil {
		return
	}
	fx.noteAssumption("a panic raised by " + what + " is recovered by the deferred handler and the named results are returned as they are at that moment")
	for i, c := range root.Recovers {
		t := fx.rootFrame.evalClause(c, st, nil, nil)
		fx.oblige("recovers", fmt.Sprintf("%s/on_panic/%s#", fx.rootFrame.path, clauseName(c, i)), st, t, pos, c.Src)
	}
}

// callUnknownFunc models a call through a function value of unknown origin
// (a callback parameter): according to the enclosing contract's callback
// declaration, or as a pure deterministic function of its arguments.
func (fr *Frame) callUnknownFunc(fv Val, args []Val, st *State, pos token.Pos, sig *types.Signature) *Val {
	fx := fr.fx
	fx.oblige("nil", fr.path+"/nil/funcvalue#", st, not(eq(fv.ts[0], "0")), pos, "")
	fr.panicPoint(st, pos, "a callback")
	fx.noteAssumption("callbacks invoked through function values are pure, deterministic and return normally")
	if sp := fr.spec; sp != nil && (len(sp.CbRequires) > 0 || len(sp.CbModifies) > 0 || len(sp.CbEnsures) > 0) {
		defer fr.callbackEffects(sp, st, pos, args)()
	}
	res := sig.Results()
	if res.Len() == 0 {
		fx.logCallback(st, args, nil)
		return nil
	}
	var flat []T
	var sorts []string
	flat = append(flat, fv.ts[0])
	sorts = append(sorts, sInt)
	for _, a := range args {
		flat = append(flat, a.ts...)
		sorts = append(sorts, a.sh.sorts()...)
	}
	var rsh *Shape
	if res.Len() == 1 {
		rsh = shapeOf(res.At(0).Type())
	} else {
		rsh = shapeOf(res)
	}
	out := Val{sh: rsh}
	for c, so := range rsh.sorts() {
		name := fmt.Sprintf("|cb.%s.%d|", sanitize(strings.Join(sorts, "_")+"_"+rsh.key), c)
		fx.decls.Raw(fmt.Sprintf("(declare-fun %s (%s) %s)", name, strings.Join(sorts, " "), so))
		out.ts = append(out.ts, fx.define("cb", so, app(name, flat...)))
	}
	fx.assume(st.guard, typeInvariant(out))
	fx.logCallback(st, args, &out)
	return &out
}

// callbackEffects checks the conditions the contract demands at a callback
// (e.g. "the lock is released") and returns a function that, after the call,
// forgets the state the callback may have changed through re-entrant calls
// and assumes what the contract guarantees about it.
func (fr *Frame) callbackEffects(sp *FuncSpec, st *State, pos token.Pos, args []Val) func() {
	fx := fr.fx
	// the arguments handed to the callback are visible as cbarg0, cbarg1, ...
	extra := map[string]CV{}
	for i, a := range args {
		extra[fmt.Sprintf("cbarg%d", i)] = cvOf(a)
	}
	for i, r := range sp.CbRequires {
		t := fr.evalClause(r, st, nil, extra)
		fx.oblige("requires", fmt.Sprintf("%s/callback/requires/%s#", fr.path, clauseName(r, i)), st, t, pos, r.Src)
	}
	return func() {
		env := fr.envFor(st, fr.entry, nil)
		for _, m := range sp.CbModifies {
			fr.havocLocation(env, m, st, "callback")
		}
		for _, c := range sp.CbEnsures {
			c := c
			fx.assume(st.guard, fx.hyp(func() T { return fr.evalClause(c, st, nil, nil) }))
		}
	}
}

// logCallback appends a call through an unknown function value to the ghost
// sequence log: cbcalls() so far, cbarg(k, i) and cbres(k) of the k-th call.
func (fx *FnCtx) logCallback(st *State, args []Val, res *Val) {
	intSh := shapeOf(types.Typ[types.Int])
	cnt := fx.ghostCell(st, "cbcalls", intSh, mkInt(intSh, "0"))
	k := st.cells[cnt].t()
	for i, a := range args {
		if a.ptr != nil || len(a.fns) > 0 {
			continue
		}
		ash := &Shape{kind: KArr, elem: a.sh, n: -1, key: "[cb]" + a.sh.key}
		c := fx.ghostCell(st, fmt.Sprintf("cbarg:%d", i), ash, freshVal(fx.decls, ash, "cbargs0"))
		cur := st.cells[c]
		nv := cur.arraySet(k, a)
		so := ash.sorts()
		for j := range nv.ts {
			nv.ts[j] = fx.define("cbargs", so[j], nv.ts[j])
		}
		st.cells[c] = nv
	}
	if res != nil {
		ash := &Shape{kind: KArr, elem: res.sh, n: -1, key: "[cb]" + res.sh.key}
		c := fx.ghostCell(st, "cbres", ash, freshVal(fx.decls, ash, "cbres0"))
		nv := st.cells[c].arraySet(k, *res)
		so := ash.sorts()
		for j := range nv.ts {
			nv.ts[j] = fx.define("cbress", so[j], nv.ts[j])
		}
		st.cells[c] = nv
	}
	st.cells[cnt] = mkInt(intSh, fx.define("ncb", sInt, add(k, "1")))
}

func (fr *Frame) callFunction(callee *ssa.Function, args []Val, bindings []Val, st *State, pos token.Pos, instr ssa.Instruction) *Val {
	fx := fr.fx
	eng := fx.eng
	spec := eng.specFor(callee)
	key := funcKey(callee)
	if r, handled := fr.intrinsic(key, callee, args, st, pos); handled {
		return r
	}
	useSpec := spec != nil && !spec.Inline
	if useSpec {
		return fr.callWithSpec(callee, spec, args, st, pos)
	}
	if !inModule(callee) && !eng.inlineExternal[key] {
		if callee.Synthetic != "" && len(callee.Blocks) > 0 {
			// wrappers and bound-method thunks are transparent
		} else {
			unsupp("call of external function %s without a spec", key)
		}
	}
	if len(callee.Blocks) == 0 {
		unsupp("call of bodyless function %s without a spec", key)
	}
	// (instantiation wrappers of generic functions carry the key of the
	// function they forward to: they are transparent for the recursion guard)
	if callee.Synthetic == "" {
		for _, s := range fx.callStack {
			if s == key {
				unsupp("recursive inlining of %s", key)
			}
		}
		fx.callStack = append(fx.callStack, key)
		defer func() { fx.callStack = fx.callStack[:len(fx.callStack)-1] }()
	}
	fx.inlined[key] = true
	short := callee.Name()
	sub := st.clone()
	out, vals := fx.execFunction(callee, args, bindings, sub, fr.path+"/"+short, fr.depth+1, false)
	// locals of the callee die with it
	*st = *out
	return tupleOf(callee.Signature, vals)
}

func tupleOf(sig *types.Signature, vals []Val) *Val {
	switch len(vals) {
	case 0:
		return nil
	case 1:
		return &vals[0]
	}
	tsh := shapeOf(sig.Results())
	out := Val{sh: tsh}
	for _, v := range vals {
		out.ts = append(out.ts, v.ts...)
		if len(v.fns) > 0 || v.ptr != nil {
			// function/pointer extras cannot travel through tuples
		}
	}
	return &out
}

// callWithSpec applies a contract at a call site: assert pre, havoc frame,
// assume post.
func (fr *Frame) callWithSpec(callee *ssa.Function, spec *FuncSpec, args []Val, st *State, pos token.Pos) *Val {
	fx := fr.fx
	key := spec.Name
	if !spec.Extern {
		key = funcKey(callee)
	}
	fx.usedSpecs[key] = true
	if spec.Trusted || spec.Extern {
		fx.trustedCalls[key] = true
	}
	names := paramNames(callee, spec)
	if len(names) != len(args) {
		unsupp("contract for %s declares %d parameters, call has %d", key, len(names), len(args))
	}
	pre := st.clone()
	env := &Env{fx: fx, vars: map[string]CV{}, st: pre, pkg: fx.eng.pkgOf(spec.Pkg), bound: map[string]bool{}}
	if callee != nil && callee.Pkg != nil && spec.Pkg == "" {
		env.pkg = callee.Pkg.Pkg
	}
	for i, n := range names {
		cv := cvOf(args[i])
		env.vars[n] = cv
	}
	for _, l := range spec.Lets {
		e, err := parseExpr(l.Type)
		if err != nil {
			unsupp("contract %s: %v", key, err)
		}
		env.vars[l.Name] = env.eval(e)
	}
	short := key
	if i := strings.LastIndex(short, "/"); i >= 0 {
		short = short[i+1:]
	}
	for i, r := range spec.Requires {
		if fx.eng.onlySafe && r.Label != "" && !strings.HasPrefix(r.Label, "safe") {
			continue // a precondition of the functional layer only
		}
		t := env.eval(r.E).asBool()
		fx.oblige("requires", fmt.Sprintf("%s/call/%s/requires/%s#", fr.path, short, clauseName(r, i)), st, t, pos, r.Src)
	}
	// the caller's own clauses about this callee (at_call ... prove)
	atExtra := func(res []Val) map[string]CV {
		extra := map[string]CV{}
		for i, a := range args {
			extra[fmt.Sprintf("arg%d", i)] = cvOf(a)
		}
		for i, r := range res {
			extra[fmt.Sprintf("result%d", i)] = cvOf(r)
		}
		return extra
	}
	// (the clauses also apply to calls made from helpers that are inlined
	// into the function: they are evaluated in the function's own frame)
	atFrame := fr
	if !fr.isRoot && fx.rootFrame != nil {
		atFrame = fx.rootFrame
	}
	if root := fx.rootSpec; root != nil {
		for i, ac := range root.AtCalls {
			if ac.Assume || !strings.HasSuffix(key, ac.Callee) {
				continue
			}
			t := atFrame.evalClause(ac.Clause, pre, nil, atExtra(nil))
			fx.oblige("requires", fmt.Sprintf("%s/at_call/%s/%s#", fr.path, short, clauseName(ac.Clause, i)), st, t, pos, ac.Clause.Src)
		}
	}
	inModel := T("true")
	for i, r := range spec.Models {
		t := env.eval(r.E).asBool()
		fx.oblige("model", fmt.Sprintf("%s/call/%s/models/%s#", fr.path, short, clauseName(r, i)), st, t, pos, r.Src)
		inModel = and(inModel, t)
	}
	if inModel != "true" {
		inModel = fx.defineBool("inmodel", inModel)
	}
	// frame
	allocates := !spec.Pure
	for _, m := range spec.Modifies {
		fr.havocLocation(env, m, st, key)
	}
	if allocates {
		na := fx.decls.Fresh("alloc", sInt)
		fx.assume(st.guard, le(st.alloc, na))
		st.alloc = na
	}
	if !spec.Extern && !spec.Pure && !spec.Trusted {
		// (a trusted contract speaks for the whole call: its body is not
		// looked at, neither for effects on the ghost logs)
		fr.havocGhostsForCall(callee, st)
	}
	// results
	var resVals []Val
	var resShapes []*Shape
	var resNames []string
	if callee != nil {
		res := callee.Signature.Results()
		for i := 0; i < res.Len(); i++ {
			resShapes = append(resShapes, shapeOf(res.At(i).Type()))
			n := res.At(i).Name()
			if n == "" || n == "_" {
				n = fmt.Sprintf("result%d", i)
			}
			resNames = append(resNames, n)
		}
	}
	if spec.Extern && len(spec.Results) == len(resShapes) {
		for i, r := range spec.Results {
			if r.Name != "_" && r.Name != "" {
				resNames[i] = r.Name
			}
		}
	}
	post := &Env{fx: fx, vars: map[string]CV{}, st: st, old: pre, pkg: env.pkg, bound: map[string]bool{}}
	for k, v := range env.vars {
		post.vars[k] = v
	}
	for i, sh := range resShapes {
		var v Val
		if spec.Pure && fx.pureResult(key, args, sh, i, &v) {
			// deterministic result: an uninterpreted function of the arguments
		} else {
			v = freshVal(fx.decls, sh, "r_"+resNames[i])
		}
		fx.assume(st.guard, typeInvariant(v))
		fx.assumeRefsBelow(st, v)
		resVals = append(resVals, v)
		post.vars[resNames[i]] = cvOf(v)
	}
	if len(resVals) == 1 {
		post.vars["result"] = cvOf(resVals[0])
	}
	var onlyLabels []string
	restricted := false
	if root := fx.rootSpec; root != nil {
		for callee, labels := range root.From {
			if strings.HasSuffix(key, callee) {
				onlyLabels, restricted = labels, true
			}
		}
	}
	for _, c := range spec.Ensures {
		if !spec.Extern && !fx.eng.useClause(c) {
			continue
		}
		if restricted && !contains(onlyLabels, c.Label) && !strings.HasPrefix(c.Label, "safe") {
			continue
		}
		// a clause that cannot be rendered for this instantiation (e.g. a
		// generic contract applied to multi-component elements) is dropped:
		// assuming less is sound
		t, ok := func() (t T, ok bool) {
			defer func() {
				if r := recover(); r != nil {
					if _, isU := r.(unsupported); !isU {
						panic(r)
					}
					fx.noteAssumption("clause '" + c.Label + "' of " + key + " not used at an instantiation it cannot be rendered for")
				}
			}()
			return fx.hyp(func() T { return post.eval(c.E).asBool() }), true
		}()
		if ok {
			// outside the modelled domain nothing is known about the call
			fx.assume(st.guard, imp(inModel, t))
		}
	}
	if spec.ResultIs != "" && len(resVals) == 1 {
		// the function is deterministic and effect-free, so its result is a
		// function of its arguments: the named spec function
		var cargs []Expr
		for _, n := range names {
			cargs = append(cargs, &EIdent{Name: n})
		}
		rv := post.eval(&ECall{Fn: spec.ResultIs, Args: cargs})
		fx.assume(st.guard, post.equalView(cvOf(resVals[0]), rv))
		fx.noteAssumption(key + " is deterministic and has no effects: its result is denoted by the spec function " + spec.ResultIs)
	}
	if root := fx.rootSpec; root != nil {
		for _, ac := range root.AtCalls {
			if !ac.Assume || !strings.HasSuffix(key, ac.Callee) {
				continue
			}
			ac := ac
			fx.assume(st.guard, fx.hyp(func() T { return atFrame.evalClause(ac.Clause, st, nil, atExtra(resVals)) }))
			fx.noteAssumption("ASSUMED about every " + short + " call made by " + funcKey(fr.fn) + " (resource invariant, not derived from the callee): " + ac.Clause.Label + ": " + ac.Clause.Src)
		}
	}
	if spec.MayPanic {
		fr.panicPoint(pre, pos, key)
	}
	if spec.Logged {
		fx.logCall(st, short, args, resVals)
	}
	if key == "sync.(*Mutex).Lock" || key == "sync.(*Mutex).Unlock" {
		fr.monitorHook(key == "sync.(*Mutex).Lock", args[0], st, pre, pos)
		if key == "sync.(*Mutex).Lock" {
			fr.assumeUnpublished(fr.cur, st)
		}
	}
	if callee == nil {
		return nil
	}
	return tupleOf(callee.Signature, resVals)
}

// monitorHook applies the monitor discipline of the mutex field addressed by
// mu: after Lock the protected state is unknown but satisfies the invariant;
// before Unlock the invariant must hold (checked in the pre-call state).
func (fr *Frame) monitorHook(isLock bool, mu Val, st *State, pre *State, pos token.Pos) {
	fx := fr.fx
	if mu.ptr == nil || mu.ptr.cell != nil || len(mu.ptr.path) != 1 || mu.ptr.path[0].field < 0 {
		return
	}
	root := mu.ptr.root
	mkey := embeddedKey(root, mu.ptr.path[0].field)
	mon := fx.eng.contracts.Monitors[mkey]
	if mon == nil {
		return
	}
	obj := Val{sh: &Shape{kind: KPtr, elem: root, key: "*" + root.key}, ts: []T{mu.ts[0]}}
	mkEnv := func(s *State) *Env {
		env := &Env{fx: fx, vars: map[string]CV{mon.Var: cvOf(obj)}, st: s, old: fr.entry, pkg: fx.eng.pkgOf(mon.Pkg), bound: map[string]bool{}}
		return env
	}
	if isLock {
		env := mkEnv(st)
		if !fx.eng.sequential {
			for _, m := range mon.Modifies {
				fr.havocLocation(env, m, st, "monitor "+mkey)
			}
		} else {
			fx.noteAssumption("sequential mode: no other goroutine runs between a method's entry and its Lock (histories of calls, including re-entrant calls from callbacks, are covered; interleavings are the subject of the lock-discipline property)")
		}
		env = mkEnv(st)
		for _, inv := range append(append([]Clause{}, mon.Invariants...), mon.Assumed...) {
			inv := inv
			fx.labelled(inv.Label, func() { fx.assume(st.guard, fx.hyp(func() T { return env.eval(inv.E).asBool() })) })
		}
		for _, inv := range mon.Assumed {
			fx.noteAssumption("UNCHECKED data-structure invariant assumed when " + mkey + " is acquired (not proved at Unlock): " + inv.Label)
		}
		fx.noteAssumption("monitor discipline for " + mkey + ": state protected by the mutex is only changed by lock holders, so it satisfies the monitor invariant whenever the lock is acquired")
		return
	}
	env := mkEnv(pre)
	gst := pre.clone()
	gst.guard = st.guard
	for i, inv := range mon.Invariants {
		fx.oblige("invariant", fmt.Sprintf("%s/unlock/monitor_invariant/%s#", fr.path, clauseName(inv, i)), gst, env.eval(inv.E).asBool(), pos, inv.Src)
	}
}

// pureResult builds result component terms as uninterpreted functions of the
// flattened arguments, so that two calls with equal arguments agree.
func (fx *FnCtx) pureResult(key string, args []Val, sh *Shape, idx int, out *Val) bool {
	var flat []T
	var sorts []string
	for _, a := range args {
		if a.ptr != nil && a.ptr.cell != nil {
			return false
		}
		flat = append(flat, a.ts...)
		sorts = append(sorts, a.sh.sorts()...)
	}
	v := Val{sh: sh}
	for c, so := range sh.sorts() {
		name := fmt.Sprintf("|pure.%s.%d.%d|", sanitize(key), idx, c)
		fx.decls.Raw(fmt.Sprintf("(declare-fun %s (%s) %s)", name, strings.Join(sorts, " "), so))
		v.ts = append(v.ts, fx.define("p", so, app(name, flat...)))
	}
	*out = v
	return true
}

func (fx *FnCtx) assumeRefsBelow(st *State, v Val) {
	var walk func(s *Shape, ts []T)
	walk = func(s *Shape, ts []T) {
		switch s.kind {
		case KPtr, KMap, KSlice:
			fx.assume(st.guard, le(ts[0], st.alloc))
		case KStruct, KTuple:
			o := 0
			for _, f := range s.fields {
				n := f.ncomp()
				walk(f, ts[o:o+n])
				o += n
			}
		}
	}
	walk(v.sh, v.ts)
}

func paramNames(callee *ssa.Function, spec *FuncSpec) []string {
	if spec.Extern && len(spec.Params) > 0 {
		var out []string
		for _, p := range spec.Params {
			out = append(out, p.Name)
		}
		return out
	}
	var out []string
	if callee != nil {
		for i, p := range callee.Params {
			n := p.Name()
			if n == "" || n == "_" {
				n = fmt.Sprintf("arg%d", i)
			}
			out = append(out, n)
		}
	}
	return out
}

// havocLocation forgets the contents of a location named in a modifies
// clause: "*p", "p.f", "elems(p)".
func (fr *Frame) havocLocation(env *Env, loc string, st *State, who string) {
	loc = strings.TrimSpace(loc)
	if loc == "nothing" {
		return
	}
	if strings.HasPrefix(loc, "*") {
		inner, err := parseExpr(loc[1:])
		if err != nil {
			unsupp("modifies clause of %s: %v", who, err)
		}
		cv := env.eval(inner)
		if cv.k == cvVal && cv.v.sh.kind == KPtr {
			fr.havocPointee(cv.v, st)
			return
		}
		unsupp("modifies clause %q of %s: not a pointer", loc, who)
	}
	e, err := parseExpr(loc)
	if err != nil {
		unsupp("modifies clause of %s: %v", who, err)
	}
	switch x := e.(type) {
	case *ECall:
		if x.Fn == "allof" {
			// every object of the named struct type / every map of the named map type
			id, ok := x.Args[0].(*EStr)
			if !ok {
				unsupp("modifies allof(\"T\")")
			}
			sh := shapeOf(env.resolveTypeExpr(id.V))
			fx := fr.fx
			if sh.kind == KMap {
				has, val, hasSort, valSorts, _ := mapHeaps(sh)
				st.heaps[has[0]] = fx.decls.Fresh("hv", arrSort(hasSort))
				fx.heapSorts[has[0]] = arrSort(hasSort)
				for c := range val {
					st.heaps[val[c]] = fx.decls.Fresh("hv", arrSort(valSorts[c]))
					fx.heapSorts[val[c]] = arrSort(valSorts[c])
				}
				st.heaps["ML|"+sh.key] = fx.decls.Fresh("hv", arrSort(sInt))
				fx.heapSorts["ML|"+sh.key] = arrSort(sInt)
				return
			}
			if sh.kind == KSlice {
				// allof("[]T"): the elements of every slice of that type
				sh = &Shape{kind: KArr, elem: sh.elem, n: -1, key: "[?]" + sh.elem.key}
			}
			for c := 0; c < sh.ncomp(); c++ {
				st.heaps[heapName(sh, c)] = fx.decls.Fresh("hv", heapSort(sh, c))
				fx.heapSorts[heapName(sh, c)] = heapSort(sh, c)
			}
			return
		}
		if x.Fn == "mapof" {
			// the contents of one map
			cv := env.eval(x.Args[0])
			if cv.k != cvVal || cv.v.sh.kind != KMap {
				unsupp("modifies %s: not a map", loc)
			}
			fx := fr.fx
			has, val, hasSort, valSorts, _ := mapHeaps(cv.v.sh)
			upd := func(h, inner string) {
				cur := fx.heapTerm(st, h, arrSort(inner))
				st.heaps[h] = fx.define("hm", arrSort(inner), fmt.Sprintf("(store %s %s %s)", cur, cv.v.ts[0], fx.decls.Fresh("mv", inner)))
			}
			upd(has[0], hasSort)
			for c := range val {
				upd(val[c], valSorts[c])
			}
			upd("ML|"+cv.v.sh.key, sInt)
			return
		}
		if x.Fn == "backing" {
			cv := env.eval(x.Args[0])
			if cv.k != cvVal || cv.v.sh.kind != KSlice {
				unsupp("modifies %s: not a slice", loc)
			}
			ash := &Shape{kind: KArr, elem: cv.v.sh.elem, n: -1, key: "[?]" + cv.v.sh.elem.key}
			for c := 0; c < ash.ncomp(); c++ {
				na := fr.fx.decls.Fresh("backing", ash.sorts()[c])
				fr.fx.storeObjComps(st, ash, cv.v.slRef(), c, []T{na})
			}
			return
		}
		if x.Fn == "deref" || x.Fn == "elems" {
			cv := env.eval(x.Args[0])
			if cv.k != cvVal {
				unsupp("modifies %s: not a reference", loc)
			}
			if x.Fn == "elems" {
				fr.havocElems(cv.v, st)
				return
			}
			fr.havocPointee(cv.v, st)
			return
		}
	case *EField:
		base := env.eval(x.X)
		if base.k != cvVal || base.v.sh.kind != KPtr || base.v.sh.elem.kind != KStruct {
			unsupp("modifies %s: base is not a pointer to struct", loc)
		}
		for i, n := range base.v.sh.elem.fnames {
			if n == x.Name {
				fp := fr.fieldAddr(st, base.v, i, token.NoPos)
				fr.havocPointee(fp, st)
				return
			}
		}
	case *EUnary:
	}
	if strings.HasPrefix(loc, "*") {
		inner, err := parseExpr(loc[1:])
		if err == nil {
			cv := env.eval(inner)
			if cv.k == cvVal && cv.v.sh.kind == KPtr {
				fr.havocPointee(cv.v, st)
				return
			}
		}
	}
	unsupp("modifies clause %q of %s not understood", loc, who)
}

func (fr *Frame) havocPointee(p Val, st *State) {
	fx := fr.fx
	if p.ptr != nil && p.ptr.cell != nil {
		c := p.ptr.cell
		cur, ok := st.cells[c]
		if !ok {
			cur = zeroVal(c.sh)
		}
		old := navGet(cur, p.ptr.path)
		nv := freshVal(fx.decls, old.sh, c.name)
		fx.assume(st.guard, typeInvariant(nv))
		st.cells[c] = navSet(cur, p.ptr.path, nv)
		return
	}
	if p.ptr != nil {
		root := fx.loadObj(st, p.ptr.root, p.ts[0])
		old := navGet(root, p.ptr.path)
		nv := freshVal(fx.decls, old.sh, "hv")
		fx.assume(st.guard, typeInvariant(nv))
		nroot := navSet(root, p.ptr.path, nv)
		for c := range root.ts {
			if root.ts[c] != nroot.ts[c] {
				fx.storeObjComps(st, p.ptr.root, p.ts[0], c, nroot.ts[c:c+1])
			}
		}
		return
	}
	nv := freshVal(fx.decls, p.sh.elem, "hv")
	fx.assume(st.guard, typeInvariant(nv))
	fx.storeObjComps(st, p.sh.elem, p.ts[0], 0, nv.ts)
}

func (fr *Frame) havocElems(s Val, st *State) {
	fx := fr.fx
	if s.sh.kind != KSlice {
		unsupp("elems() of non-slice")
	}
	ash := &Shape{kind: KArr, elem: s.sh.elem, n: -1, key: "[?]" + s.sh.elem.key}
	for c := 0; c < ash.ncomp(); c++ {
		old := sel(fx.heapTerm(st, heapName(ash, c), heapSort(ash, c)), s.slRef())
		na := fx.decls.Fresh("elems", ash.sorts()[c])
		// only the window [off, off+len) may change
		fx.assume(st.guard, fmt.Sprintf("(forall ((i Int)) (! (=> (or (< i %s) (>= i (+ %s %s))) (= (select %s i) (select %s i))) :pattern ((select %s i))))",
			s.slOff(), s.slOff(), s.slLen(), na, old, na))
		fx.storeObjComps(st, ash, s.slRef(), c, []T{na})
	}
}

// ---------------------------------------------------------------------------
// Interface method calls

func (fr *Frame) invoke(recv Val, m *types.Func, args []Val, st *State, pos token.Pos, instr ssa.Instruction) *Val {
	fx := fr.fx
	fx.oblige("nil", fr.path+"/nil/invoke#", st, not(eq(recv.ifTyp(), "0")), pos, "")
	// statically known dynamic type
	if id, ok := isNumLit(recv.ifTyp()); ok && id > 0 && int(id) <= len(fx.eng.tids.typs) {
		dt := fx.eng.tids.typs[id-1]
		if fn := fx.eng.prog.LookupMethod(dt, m.Pkg(), m.Name()); fn != nil {
			rv := fr.unbox(st, recv, dt)
			return fr.callFunction(fn, append([]Val{rv}, args...), nil, st, pos, instr)
		}
	}
	// interface-method contract: "iface pkg.Type.Method"
	iname := ""
	if recvT := m.Type().(*types.Signature).Recv(); recvT != nil {
		if n, ok := recvT.Type().(*types.Named); ok {
			if n.Obj().Pkg() != nil {
				iname = n.Obj().Pkg().Path() + "." + n.Obj().Name()
			} else {
				iname = n.Obj().Name()
			}
		}
	}
	key := "iface:" + iname + "." + m.Name()
	spec := fx.eng.contracts.Funcs[key]
	if spec == nil || !spec.Residual {
		fr.panicPoint(st, pos, "a call of "+iname+"."+m.Name())
	}
	// closed-world dispatch over the in-module dynamic types known so far;
	// every other dynamic type is covered by the interface-method contract
	type cand struct {
		ty types.Type
		fn *ssa.Function
	}
	var cands []cand
	for _, ty := range fx.eng.tids.typs {
		if !typeInModule(ty) || (spec != nil && !spec.Residual) {
			// an interface-method contract that is not marked residual
			// speaks for every implementation (behavioural subtyping)
			continue
		}
		sel := fx.eng.prog.MethodSets.MethodSet(ty).Lookup(m.Pkg(), m.Name())
		if sel == nil {
			continue
		}
		if fn := fx.eng.prog.MethodValue(sel); fn != nil {
			cands = append(cands, cand{ty, fn})
		}
	}
	if len(cands) == 0 {
		if spec == nil {
			unsupp("interface method call %s without a contract", key)
		}
		return fr.callIfaceSpec(spec, key, iname, recv, m, args, st, pos)
	}
	var outs []edgeState
	var results []*Val
	var conds []T
	var matched []T
	for _, c := range cands {
		id := num(int64(fx.eng.tids.id(c.ty)))
		s := st.clone()
		s.guard = fx.defineBool("dyn", and(st.guard, eq(recv.ifTyp(), id)))
		matched = append(matched, eq(recv.ifTyp(), id))
		rv := fr.unbox(s, recv, c.ty)
		r := fr.callFunction(c.fn, append([]Val{rv}, args...), nil, s, pos, instr)
		outs = append(outs, edgeState{cond: s.guard, st: s})
		results = append(results, r)
		conds = append(conds, s.guard)
	}
	rest := st.clone()
	rest.guard = fx.defineBool("dynother", and(st.guard, not(or(matched...))))
	if spec == nil {
		fx.oblige("nil", fr.path+"/dispatch/known_dynamic_type#", rest, "false", pos, "no contract for "+key)
	} else {
		r := fr.callIfaceSpec(spec, key, iname, recv, m, args, rest, pos)
		outs = append(outs, edgeState{cond: rest.guard, st: rest})
		results = append(results, r)
		conds = append(conds, rest.guard)
	}
	mst := fx.merge("invoke", outs)
	*st = *mst
	if results[0] == nil {
		return nil
	}
	var vs []Val
	for _, r := range results {
		vs = append(vs, *r)
	}
	mv := fx.mergeVals("invoke", conds, vs)
	return &mv
}

func typeInModule(t types.Type) bool {
	if p, ok := t.(*types.Pointer); ok {
		t = p.Elem()
	}
	n, ok := t.(*types.Named)
	if !ok || n.Obj().Pkg() == nil {
		return false
	}
	return strings.HasPrefix(n.Obj().Pkg().Path(), modulePrefix)
}

func (fr *Frame) callIfaceSpec(spec *FuncSpec, key string, iname string, recv Val, m *types.Func, args []Val, st *State, pos token.Pos) *Val {
	fx := fr.fx
	fx.usedSpecs[key] = true
	fx.trustedCalls[key] = true
	sig := m.Type().(*types.Signature)
	all := append([]Val{recv}, args...)
	if len(spec.Params) != len(all) {
		unsupp("contract %s declares %d parameters, need %d", key, len(spec.Params), len(all))
	}
	pre := st.clone()
	env := &Env{fx: fx, vars: map[string]CV{}, st: pre, bound: map[string]bool{}}
	for i, p := range spec.Params {
		env.vars[p.Name] = cvOf(all[i])
	}
	for i, r := range spec.Requires {
		t := env.eval(r.E).asBool()
		fx.oblige("requires", fmt.Sprintf("%s/call/%s/requires/%s#", fr.path, m.Name(), clauseName(r, i)), st, t, pos, r.Src)
	}
	for _, mo := range spec.Modifies {
		fr.havocLocation(env, mo, st, key)
	}
	if !spec.Pure {
		na := fx.decls.Fresh("alloc", sInt)
		fx.assume(st.guard, le(st.alloc, na))
		st.alloc = na
	}
	post := &Env{fx: fx, vars: map[string]CV{}, st: st, old: pre, bound: map[string]bool{}}
	for k, v := range env.vars {
		post.vars[k] = v
	}
	var resVals []Val
	res := sig.Results()
	for i := 0; i < res.Len(); i++ {
		sh := shapeOf(res.At(i).Type())
		v := freshVal(fx.decls, sh, "ir")
		fx.assume(st.guard, typeInvariant(v))
		fx.assumeRefsBelow(st, v)
		resVals = append(resVals, v)
		name := fmt.Sprintf("result%d", i)
		if i < len(spec.Results) {
			name = spec.Results[i].Name
		}
		post.vars[name] = cvOf(v)
	}
	for _, c := range spec.Ensures {
		c := c
		fx.assume(st.guard, fx.hyp(func() T { return post.eval(c.E).asBool() }))
	}
	fx.logCall(st, iname+"."+m.Name(), all, resVals)
	return tupleOf(sig, resVals)
}

// logCall records an interface-method call in the ghost call log: number of
// calls so far, and the arguments and results of the latest one.
func (fx *FnCtx) logCall(st *State, name string, args []Val, res []Val) {
	intSh := shapeOf(types.Typ[types.Int])
	cnt := fx.ghostCell(st, "calls:"+name, intSh, mkInt(intSh, "0"))
	st.cells[cnt] = mkInt(intSh, fx.define("ncalls", sInt, add(st.cells[cnt].t(), "1")))
	for i, a := range args {
		c := fx.ghostCell(st, fmt.Sprintf("arg:%s:%d", name, i), a.sh, a)
		st.cells[c] = a
	}
	for i, r := range res {
		c := fx.ghostCell(st, fmt.Sprintf("res:%s:%d", name, i), r.sh, r)
		st.cells[c] = r
	}
	// the same call in the global event sequence (events(), evis, evarg)
	evn := fx.ghostCell(st, "evn", intSh, mkInt(intSh, "0"))
	k := st.cells[evn].t()
	ksh := &Shape{kind: KArr, elem: intSh, n: -1, key: "[ev]kind"}
	kc := fx.ghostCell(st, "evkind", ksh, freshVal(fx.decls, ksh, "evkind0"))
	kv := st.cells[kc].arraySet(k, mkInt(intSh, num(int64(fx.eng.eventID(name)))))
	kv.ts[0] = fx.define("evkind", arrSort(sInt), kv.ts[0])
	st.cells[kc] = kv
	for i, a := range args {
		if a.ptr != nil || len(a.fns) > 0 {
			continue
		}
		ash := &Shape{kind: KArr, elem: a.sh, n: -1, key: "[ev]" + a.sh.key}
		c := fx.ghostCell(st, fmt.Sprintf("evarg:%s:%d", name, i), ash, freshVal(fx.decls, ash, "evargs0"))
		nv := st.cells[c].arraySet(k, a)
		so := ash.sorts()
		for j := range nv.ts {
			nv.ts[j] = fx.define("evargs", so[j], nv.ts[j])
		}
		st.cells[c] = nv
	}
	for i, a := range res {
		if a.ptr != nil || len(a.fns) > 0 {
			continue
		}
		ash := &Shape{kind: KArr, elem: a.sh, n: -1, key: "[ev]" + a.sh.key}
		c := fx.ghostCell(st, fmt.Sprintf("evres:%s:%d", name, i), ash, freshVal(fx.decls, ash, "evress0"))
		nv := st.cells[c].arraySet(k, a)
		so := ash.sorts()
		for j := range nv.ts {
			nv.ts[j] = fx.define("evress", so[j], nv.ts[j])
		}
		st.cells[c] = nv
	}
	st.cells[evn] = mkInt(intSh, fx.define("evn", sInt, add(k, "1")))
}

// ---------------------------------------------------------------------------
// Builtins

func (fr *Frame) builtin(name string, args []Val, st *State, pos token.Pos, instr ssa.Instruction) *Val {
	fx := fr.fx
	intSh := shapeOf(types.Typ[types.Int])
	switch name {
	case "len":
		a := args[0]
		switch a.sh.kind {
		case KStr:
			v := mkInt(intSh, a.strLen())
			return &v
		case KSlice:
			v := mkInt(intSh, a.slLen())
			return &v
		case KArr:
			v := mkInt(intSh, num(a.sh.n))
			return &v
		case KMap:
			v := mkInt(intSh, fx.mapLen(st, a))
			return &v
		case KPtr:
			if a.sh.elem != nil && a.sh.elem.kind == KArr {
				v := mkInt(intSh, num(a.sh.elem.n))
				return &v
			}
		}
	case "cap":
		a := args[0]
		switch a.sh.kind {
		case KSlice:
			v := mkInt(intSh, a.slCap())
			return &v
		case KArr:
			v := mkInt(intSh, num(a.sh.n))
			return &v
		}
	case "append":
		v := fr.doAppend(args[0], args[1], st, pos)
		return &v
	case "copy":
		v := fr.doCopy(args[0], args[1], st)
		return &v
	case "min", "max":
		r := args[0]
		for _, b := range args[1:] {
			var c T
			if name == "min" {
				c = le(r.t(), b.t())
			} else {
				c = le(b.t(), r.t())
			}
			r = iteVal(c, r, b)
		}
		r.ts[0] = fx.define("mm", sInt, r.ts[0])
		return &r
	case "delete":
		fr.mapDelete(args[0], args[1], st)
		return nil
	case "clear":
		fr.doClear(args[0], st)
		return nil
	case "ssa:wrapnilchk":
		fx.oblige("nil", fr.path+"/nil/wrapnilchk#", st, not(eq(args[0].ts[0], "0")), pos, "")
		return &args[0]
	case "ssa:deferstack":
		v := Val{sh: &Shape{kind: KUnit, key: "deferstack"}}
		return &v
	case "print", "println":
		return nil
	case "recover":
		return fr.doRecover(st, instr)
	case "close":
		// only the fact that (and which) channel was closed is recorded:
		// closes() counts them, lastclosed() is the latest one
		fx.noteAssumption("close of a channel: only the event is recorded (closing a closed or nil channel panics: not modelled)")
		intSh := shapeOf(types.Typ[types.Int])
		cnt := fx.ghostCell(st, "closes", intSh, mkInt(intSh, "0"))
		cur, live := st.cells[cnt]
		if !live {
			cur = mkInt(intSh, "0")
		}
		st.cells[cnt] = mkInt(intSh, add(cur.t(), "1"))
		last := fx.ghostCell(st, "lastclosed", args[0].sh, zeroVal(args[0].sh))
		st.cells[last] = args[0]
		return nil
	}
	unsupp("builtin %s on %s", name, args[0].sh.key)
	return nil
}

func (fr *Frame) doRecover(st *State, instr ssa.Instruction) *Val {
	sh := shapeOf(types.NewInterfaceType(nil, nil))
	if fr.fx.panicking != nil {
		v := *fr.fx.panicking
		v.sh = sh
		return &v
	}
	z := zeroVal(sh)
	return &z
}

// doAppend implements append(s, t...) per the language's capacity rules:
// in place when the capacity suffices, otherwise a fresh backing array.
func (fr *Frame) doAppend(s, t Val, st *State, pos token.Pos) Val {
	fx := fr.fx
	if s.sh.kind != KSlice {
		unsupp("append to %s", s.sh.key)
	}
	elem := s.sh.elem
	ash := &Shape{kind: KArr, elem: elem, n: -1, key: "[?]" + elem.key}
	var tn T
	var tget func(c int, i T) T
	switch t.sh.kind {
	case KSlice:
		tn = t.slLen()
		pre := st.clone()
		tget = func(c int, i T) T { return sel(fx.sliceBacking(pre, elem, t.slRef(), c), add(t.slOff(), i)) }
	case KStr:
		tn = t.strLen()
		tget = func(c int, i T) T { return sel(t.strArr(), add(t.strOff(), i)) }
	default:
		unsupp("append of %s", t.sh.key)
	}
	newLen := fx.define("alen", sInt, add(s.slLen(), tn))
	fits := fx.defineBool("fits", le(newLen, s.slCap()))
	// a nil appended slice with nothing to add stays nil
	nref := fx.newRef(st, "app")
	ncap := fx.decls.Fresh("acap", sInt)
	fx.assume(st.guard, le(newLen, ncap))
	fx.assume(st.guard, le(ncap, maxLen))
	ref := ite(fits, s.slRef(), nref)
	off := ite(fits, s.slOff(), "0")
	cp := ite(fits, s.slCap(), ncap)
	ref = fx.define("aref", sInt, ref)
	off = fx.define("aoff", sInt, off)
	for c := 0; c < ash.ncomp(); c++ {
		hname := heapName(ash, c)
		hsort := heapSort(ash, c)
		h := fx.heapTerm(st, hname, hsort)
		oldArr := sel(h, s.slRef())
		na := fx.decls.Fresh("aarr", ash.sorts()[c])
		// contents of the result window
		fx.assume(st.guard, fmt.Sprintf("(forall ((i Int)) (! (=> (and (<= 0 i) (< i %s)) (= (select %s (+ %s i)) (select %s (+ %s i)))) :pattern ((select %s (+ %s i))) :pattern ((select %s (+ %s i)))))",
			s.slLen(), na, off, oldArr, s.slOff(), na, off, oldArr, s.slOff()))
		// the same fact over absolute positions of the old and of the new
		// array (terms that solvers normalise away from the "+ off i" shape)
		fx.assume(st.guard, fmt.Sprintf("(forall ((j Int)) (! (=> (and (<= %s j) (< j (+ %s %s))) (= (select %s (+ %s (- j %s))) (select %s j))) :pattern ((select %s j))))",
			s.slOff(), s.slOff(), s.slLen(), na, off, s.slOff(), oldArr, oldArr))
		fx.assume(st.guard, fmt.Sprintf("(forall ((j Int)) (! (=> (and (<= %s j) (< j (+ %s %s))) (= (select %s j) (select %s (+ %s (- j %s))))) :pattern ((select %s j))))",
			off, off, s.slLen(), na, oldArr, s.slOff(), off, na))
		if n, ok := isNumLit(tn); ok && n <= 8 {
			for i := int64(0); i < n; i++ {
				fx.assume(st.guard, eq(sel(na, add(off, add(s.slLen(), num(i)))), tget(c, num(i))))
			}
		} else {
			fx.assume(st.guard, fmt.Sprintf("(forall ((i Int)) (! (=> (and (<= 0 i) (< i %s)) (= (select %s (+ %s %s i)) %s)) :pattern ((select %s (+ %s %s i)))))",
				tn, na, off, s.slLen(), tget(c, "i"), na, off, s.slLen()))
		}
		// in-place append leaves everything outside the appended window alone
		fx.assume(st.guard, imp(fits, fmt.Sprintf("(forall ((i Int)) (! (=> (or (< i (+ %s %s)) (>= i (+ %s %s))) (= (select %s i) (select %s i))) :pattern ((select %s i))))",
			s.slOff(), s.slLen(), s.slOff(), newLen, na, oldArr, na)))
		st.heaps[hname] = fx.define("h", hsort, store(h, ref, na))
	}
	return Val{sh: s.sh, ts: []T{ref, off, newLen, fx.define("acap2", sInt, cp)}}
}

func (fr *Frame) doCopy(dst, src Val, st *State) Val {
	fx := fr.fx
	intSh := shapeOf(types.Typ[types.Int])
	if dst.sh.kind != KSlice {
		unsupp("copy into %s", dst.sh.key)
	}
	elem := dst.sh.elem
	ash := &Shape{kind: KArr, elem: elem, n: -1, key: "[?]" + elem.key}
	var sn T
	var sget func(c int, i T) T
	pre := st.clone()
	switch src.sh.kind {
	case KSlice:
		sn = src.slLen()
		sget = func(c int, i T) T { return sel(fx.sliceBacking(pre, elem, src.slRef(), c), add(src.slOff(), i)) }
	case KStr:
		sn = src.strLen()
		sget = func(c int, i T) T { return sel(src.strArr(), add(src.strOff(), i)) }
	default:
		unsupp("copy from %s", src.sh.key)
	}
	n := fx.define("cpn", sInt, ite(le(dst.slLen(), sn), dst.slLen(), sn))
	for c := 0; c < ash.ncomp(); c++ {
		hname := heapName(ash, c)
		hsort := heapSort(ash, c)
		h := fx.heapTerm(st, hname, hsort)
		oldArr := sel(h, dst.slRef())
		na := fx.decls.Fresh("cparr", ash.sorts()[c])
		fx.assume(st.guard, fmt.Sprintf("(forall ((i Int)) (! (=> (and (<= 0 i) (< i %s)) (= (select %s (+ %s i)) %s)) :pattern ((select %s (+ %s i)))))",
			n, na, dst.slOff(), sget(c, "i"), na, dst.slOff()))
		fx.assume(st.guard, fmt.Sprintf("(forall ((i Int)) (! (=> (or (< i %s) (>= i (+ %s %s))) (= (select %s i) (select %s i))) :pattern ((select %s i))))",
			dst.slOff(), dst.slOff(), n, na, oldArr, na))
		st.heaps[hname] = fx.define("h", hsort, store(h, dst.slRef(), na))
	}
	return mkInt(intSh, n)
}

func (fr *Frame) doClear(a Val, st *State) {
	fx := fr.fx
	switch a.sh.kind {
	case KSlice:
		elem := a.sh.elem
		ash := &Shape{kind: KArr, elem: elem, n: -1, key: "[?]" + elem.key}
		z := zeroVal(elem)
		for c := 0; c < ash.ncomp(); c++ {
			hname := heapName(ash, c)
			hsort := heapSort(ash, c)
			h := fx.heapTerm(st, hname, hsort)
			oldArr := sel(h, a.slRef())
			na := fx.decls.Fresh("clr", ash.sorts()[c])
			fx.assume(st.guard, fmt.Sprintf("(forall ((i Int)) (! (= (select %s i) (ite (and (<= %s i) (< i (+ %s %s))) %s (select %s i))) :pattern ((select %s i))))",
				na, a.slOff(), a.slOff(), a.slLen(), z.ts[c], oldArr, na))
			st.heaps[hname] = fx.define("h", hsort, store(h, a.slRef(), na))
		}
	case KMap:
		fr.mapClear(a, st)
	default:
		unsupp("clear of %s", a.sh.key)
	}
}

// ---------------------------------------------------------------------------
// Defers

func (fr *Frame) execDefer(x *ssa.Defer, st *State) {
	fx := fr.fx
	if fr.loops != nil {
		for _, l := range fr.loops.ordered {
			if l.body[x.Block()] {
				unsupp("defer inside a loop in %s", fr.fn)
			}
		}
	}
	var rec *deferRec
	for _, d := range fr.defers {
		if d.instr == x {
			rec = d
		}
	}
	if rec == nil {
		rec = &deferRec{instr: x}
		rec.flag = fx.newCell("deferred", shapeOf(types.Typ[types.Bool]), nil)
		fr.defers = append(fr.defers, rec)
	}
	st.cells[rec.flag] = mkBool(rec.flag.sh, "true")
	rec.args = nil
	for i, a := range x.Call.Args {
		v := fr.val(a)
		c := fx.newCell(fmt.Sprintf("deferarg%d", i), v.sh, nil)
		st.cells[c] = v
		rec.args = append(rec.args, c)
	}
	if !x.Call.IsInvoke() {
		if _, isB := x.Call.Value.(*ssa.Builtin); !isB && x.Call.StaticCallee() == nil {
			v := fr.val(x.Call.Value)
			c := fx.newCell("deferfn", v.sh, nil)
			st.cells[c] = v
			rec.fnval = c
		}
	} else {
		v := fr.val(x.Call.Value)
		c := fx.newCell("deferrecv", v.sh, nil)
		st.cells[c] = v
		rec.fnval = c
	}
}

func (fr *Frame) execRunDefers(x *ssa.RunDefers, st *State) {
	fr.runDefers(st, x.Pos())
}

func (fr *Frame) runDefers(st *State, pos token.Pos) {
	fx := fr.fx
	for i := len(fr.defers) - 1; i >= 0; i-- {
		d := fr.defers[i]
		flag, ok := st.cells[d.flag]
		if !ok || flag.t() == "false" {
			continue
		}
		run := st.clone()
		run.guard = and(st.guard, flag.t())
		var args []Val
		for _, c := range d.args {
			args = append(args, run.cells[c])
		}
		c := &d.instr.Call
		switch {
		case c.IsInvoke():
			recv := run.cells[d.fnval]
			fr.invoke(recv, c.Method, args, run, d.instr.Pos(), d.instr)
		default:
			if b, ok := c.Value.(*ssa.Builtin); ok {
				fr.builtin(b.Name(), args, run, d.instr.Pos(), d.instr)
			} else if callee := c.StaticCallee(); callee != nil {
				var bindings []Val
				if mc, ok := c.Value.(*ssa.MakeClosure); ok {
					for _, b := range mc.Bindings {
						bindings = append(bindings, fr.val(b))
					}
				}
				fr.callFunction(callee, args, bindings, run, d.instr.Pos(), d.instr)
			} else {
				fv := run.cells[d.fnval]
				fr.callValue(fv, args, run, d.instr.Pos(), d.instr, c.Signature())
			}
		}
		if flag.t() == "true" {
			*st = *run
			continue
		}
		skip := st.clone()
		skip.guard = and(st.guard, not(flag.t()))
		m := fx.merge("defer", []edgeState{{cond: run.guard, st: run}, {cond: skip.guard, st: skip}})
		*st = *m
	}
}

func (fr *Frame) execGo(x *ssa.Go, st *State) {
	fr.fx.noteAssumption("goroutine started by " + fr.fn.Name() + " is not followed (no interleaving semantics)")
}

// ---------------------------------------------------------------------------
// Range / Next

func (fr *Frame) execRange(x *ssa.Range, st *State) {
	fx := fr.fx
	xv := fr.val(x.X)
	fr.regs[x] = Val{sh: &Shape{kind: KUnit, key: "iter"}}
	switch xv.sh.kind {
	case KStr:
		// iterator state: (byte position, completed iterations)
		sh := &Shape{kind: KTuple, key: "iter(pos,i)", fields: []*Shape{shapeOf(types.Typ[types.Int]), shapeOf(types.Typ[types.Int])}, fnames: []string{"pos", "i"}}
		c := fr.iters[x]
		if c == nil {
			c = fx.newCell("$iter", sh, nil)
			fr.iters[x] = c
		}
		st.cells[c] = Val{sh: sh, ts: []T{"0", "0"}}
	case KMap:
		// iterator state: the set of keys yielded so far
		ks := xv.sh.fields[0].sorts()
		if len(ks) != 1 {
			unsupp("range over map with key %s", xv.sh.fields[0].key)
		}
		sh := &Shape{kind: KTuple, key: "mapiter", fields: []*Shape{{kind: KOpaque, key: "visitedset", rawSort: "(Array " + ks[0] + " Bool)"}}, fnames: []string{"visited"}}
		c := fr.iters[x]
		if c == nil {
			c = fx.newCell("$mapiter", sh, nil)
			fr.iters[x] = c
		}
		st.cells[c] = Val{sh: sh, ts: []T{fmt.Sprintf("((as const (Array %s Bool)) false)", ks[0])}}
	default:
		unsupp("range over %s", xv.sh.key)
	}
}

// nextMap models one step of a map iteration (the map is not modified while
// it is ranged over): it ends when every key has been yielded, otherwise it
// yields some key of the map that has not been yielded before.
func (fr *Frame) nextMap(x *ssa.Next, rng *ssa.Range, st *State) {
	fx := fr.fx
	m := fr.val(rng.X)
	c := fr.iters[rng]
	cur := st.cells[c]
	visited := cur.ts[0]
	tsh := shapeOf(x.Type())
	ksh := m.sh.fields[0]
	has, _, hasSort, _, keySort := mapHeaps(m.sh)
	h := fx.heapTerm(st, has[0], arrSort(hasSort))
	keys := sel(h, m.ts[0])
	okT := fx.decls.Fresh("more", sBool)
	k := fx.decls.Fresh("key", keySort)
	isNil := eq(m.ts[0], "0")
	fx.assume(st.guard, imp(isNil, not(okT)))
	fx.assume(st.guard, imp(okT, and(sel(keys, k), not(sel(visited, k)))))
	fx.assume(st.guard, imp(and(not(okT), not(isNil)), fmt.Sprintf("(forall ((x %s)) (! (=> (select %s x) (select %s x)) :pattern ((select %s x))))", keySort, keys, visited, keys)))
	kv := Val{sh: ksh, ts: []T{k}}
	fx.assume(st.guard, imp(okT, typeInvariant(kv)))
	st.cells[c] = Val{sh: cur.sh, ts: []T{fx.define("visited", "(Array "+keySort+" Bool)", ite(okT, store(visited, k, "true"), visited))}}
	out := Val{sh: tsh}
	out.ts = append(out.ts, okT)
	if len(tsh.fields) > 1 && tsh.fields[1].ncomp() > 0 {
		out.ts = append(out.ts, k)
	}
	if len(tsh.fields) > 2 && tsh.fields[2].ncomp() > 0 {
		v := fx.mapGet(st, m, kv)
		out.ts = append(out.ts, v.ts...)
	}
	fr.regs[x] = out
	fx.noteAssumption("map iteration yields every key exactly once in an arbitrary order (the map is not modified during the loop)")
}

func (fr *Frame) execNext(x *ssa.Next, st *State) {
	fx := fr.fx
	rng, ok := x.Iter.(*ssa.Range)
	if !ok {
		unsupp("next on non-range iterator")
	}
	xv := fr.val(rng.X)
	c := fr.iters[rng]
	cur := st.cells[c]
	tsh := shapeOf(x.Type())
	if !x.IsString {
		fr.nextMap(x, rng, st)
		return
	}
	pos, cnt := cur.field(0).t(), cur.field(1).t()
	okT := fx.defineBool("more", lt(pos, xv.strLen()))
	b0 := fx.define("b0", sInt, sel(xv.strArr(), add(xv.strOff(), pos)))
	r := fx.decls.Fresh("rune", sInt)
	w := fx.decls.Fresh("width", sInt)
	// assumed UTF-8 decoding contract (utf8.DecodeRuneInString): ASCII exact;
	// otherwise a non-ASCII rune (possibly U+FFFD) of width 1..4 inside the string
	fx.assume(st.guard, imp(okT, and(
		le("0", b0), le(b0, "255"),
		imp(lt(b0, "128"), and(eq(r, b0), eq(w, "1"))),
		imp(le("128", b0), and(le("128", r), le(r, "1114111"), le("1", w), le(w, "4"))),
		le(add(pos, w), xv.strLen()))))
	fx.noteAssumption("string range yields runes per the UTF-8 decoding contract: byte < 0x80 => that byte, width 1; otherwise a rune >= 0x80 of width 1..4 within the string")
	npos := fx.define("npos", sInt, ite(okT, add(pos, w), pos))
	ncnt := fx.define("ncnt", sInt, ite(okT, add(cnt, "1"), cnt))
	st.cells[c] = Val{sh: cur.sh, ts: []T{npos, ncnt}}
	// tuple (ok, k, v)
	out := Val{sh: tsh}
	out.ts = append(out.ts, okT)
	for i := 1; i < 3; i++ {
		f := tsh.fields[i]
		switch {
		case f.kind == KInt && i == 1:
			out.ts = append(out.ts, pos)
		case f.kind == KInt && i == 2:
			out.ts = append(out.ts, r)
		default:
			// unused key/value: invalid type → no components
		}
	}
	fr.regs[x] = out
}

// ---------------------------------------------------------------------------
// Maps: (has, val, n) per map reference

func mapHeaps(m *Shape) (has, val []string, hasSort string, valSorts []string, keySort string) {
	ks := m.fields[0].sorts()
	if len(ks) != 1 {
		if m.fields[0].kind == KStr {
			keySort = sInt // strings are keyed by their content id
		} else {
			unsupp("map key type %s", m.fields[0].key)
		}
	} else {
		keySort = ks[0]
	}
	hasSort = "(Array " + keySort + " Bool)"
	has = []string{"MH|" + m.key}
	for c, so := range m.elem.sorts() {
		val = append(val, fmt.Sprintf("MV|%s|%d", m.key, c))
		valSorts = append(valSorts, "(Array "+keySort+" "+so+")")
	}
	return
}

// keyTerm maps a key value to its SMT key: strings go through an
// uninterpreted content id that respects content equality.
func (fx *FnCtx) keyTerm(k Val) T {
	if k.sh.kind == KStr && len(k.ts) == 1 {
		return k.ts[0] // already a content id (contracts quantifying over keys)
	}
	if k.sh.kind == KStr {
		fx.decls.Raw("(declare-fun |str.id| ((Array Int Int) Int Int) Int)")
		fx.decls.Raw(streqDef)
		if os.Getenv("GOVC_STRID_QUADRATIC") != "" {
			fx.decls.Raw(`(assert (forall ((a (Array Int Int)) (ao Int) (al Int) (b (Array Int Int)) (bo Int) (bl Int)) (! (= (= (|str.id| a ao al) (|str.id| b bo bl)) (str.eq a ao al b bo bl)) :pattern ((|str.id| a ao al) (|str.id| b bo bl)))))`)
		} else {
			// a content id determines the length and every byte (instantiated
			// per id term and per read of its array, not per pair of ids) ...
			fx.decls.Raw("(declare-fun |str.idlen| (Int) Int)")
			fx.decls.Raw("(declare-fun |str.idat| (Int Int) Int)")
			fx.decls.Raw(`(assert (forall ((a (Array Int Int)) (ao Int) (al Int)) (! (= (|str.idlen| (|str.id| a ao al)) al) :pattern ((|str.id| a ao al)))))`)
			fx.decls.Raw(`(assert (forall ((a (Array Int Int)) (ao Int) (al Int) (i Int)) (! (=> (and (<= 0 i) (< i al)) (= (|str.idat| (|str.id| a ao al) i) (select a (+ ao i)))) :pattern ((|str.id| a ao al) (select a (+ ao i))))))`)
			// ... and equal contents have equal ids when both strings have the
			// same length term (the pairs that arise from copies)
			if !fx.eng.noContentIDExt {
				fx.decls.Raw(`(assert (forall ((a (Array Int Int)) (ao Int) (b (Array Int Int)) (bo Int) (l Int)) (! (=> (str.eq a ao l b bo l) (= (|str.id| a ao l) (|str.id| b bo l))) :pattern ((|str.id| a ao l) (|str.id| b bo l)))))`)
			}
		}
		return app("|str.id|", k.strArr(), k.strOff(), k.strLen())
	}
	if len(k.ts) != 1 {
		unsupp("map key of shape %s", k.sh.key)
	}
	return k.ts[0]
}

func (fx *FnCtx) mapHas(st *State, m Val, k Val) T {
	has, _, hasSort, _, _ := mapHeaps(m.sh)
	h := fx.heapTerm(st, has[0], arrSort(hasSort))
	return sel(sel(h, m.ts[0]), fx.keyTerm(k))
}

func (fx *FnCtx) mapGet(st *State, m Val, k Val) Val {
	_, val, _, valSorts, _ := mapHeaps(m.sh)
	out := Val{sh: m.sh.elem}
	kt := fx.keyTerm(k)
	for c := range val {
		h := fx.heapTerm(st, val[c], arrSort(valSorts[c]))
		out.ts = append(out.ts, sel(sel(h, m.ts[0]), kt))
	}
	return out
}

func (fx *FnCtx) mapLen(st *State, m Val) T {
	h := fx.heapTerm(st, "ML|"+m.sh.key, arrSort(sInt))
	n := fx.selHeap(h, m.ts[0])
	// a nil map has length 0; lengths are never negative
	fx.assumeOnce(le("0", n))
	fx.assumeOnce(le(n, maxLen))
	return ite(eq(m.ts[0], "0"), "0", n)
}

func (fr *Frame) execMakeMap(x *ssa.MakeMap, st *State) {
	fx := fr.fx
	sh := shapeOf(x.Type())
	ref := fx.newRef(st, "map")
	has, _, hasSort, _, keySort := mapHeaps(sh)
	h := fx.heapTerm(st, has[0], arrSort(hasSort))
	st.heaps[has[0]] = store(h, ref, fmt.Sprintf("((as const (Array %s Bool)) false)", keySort))
	lh := fx.heapTerm(st, "ML|"+sh.key, arrSort(sInt))
	st.heaps["ML|"+sh.key] = store(lh, ref, "0")
	fr.regs[x] = Val{sh: sh, ts: []T{ref}}
}

func (fr *Frame) execMapUpdate(x *ssa.MapUpdate, st *State) {
	fx := fr.fx
	m := fr.val(x.Map)
	k := fr.val(x.Key)
	v := fr.val(x.Value)
	fx.oblige("nil", fr.path+"/nil/mapupdate#", st, not(eq(m.ts[0], "0")), x.Pos(), "")
	has, val, hasSort, valSorts, _ := mapHeaps(m.sh)
	kt := fx.define("key", sInt, fx.keyTerm(k))
	h := fx.heapTerm(st, has[0], arrSort(hasSort))
	had := sel(sel(h, m.ts[0]), kt)
	lh := fx.heapTerm(st, "ML|"+m.sh.key, arrSort(sInt))
	st.heaps["ML|"+m.sh.key] = fx.define("ml", arrSort(sInt), store(lh, m.ts[0], ite(had, sel(lh, m.ts[0]), add(sel(lh, m.ts[0]), "1"))))
	st.heaps[has[0]] = fx.define("mh", arrSort(hasSort), store(h, m.ts[0], store(sel(h, m.ts[0]), kt, "true")))
	for c := range val {
		vh := fx.heapTerm(st, val[c], arrSort(valSorts[c]))
		st.heaps[val[c]] = fx.define("mv", arrSort(valSorts[c]), store(vh, m.ts[0], store(sel(vh, m.ts[0]), kt, v.ts[c])))
	}
}

func (fr *Frame) mapDelete(m, k Val, st *State) {
	fx := fr.fx
	has, _, hasSort, _, _ := mapHeaps(m.sh)
	kt := fx.define("key", sInt, fx.keyTerm(k))
	h := fx.heapTerm(st, has[0], arrSort(hasSort))
	// delete on a nil map is a no-op
	had := and(not(eq(m.ts[0], "0")), sel(sel(h, m.ts[0]), kt))
	lh := fx.heapTerm(st, "ML|"+m.sh.key, arrSort(sInt))
	st.heaps["ML|"+m.sh.key] = fx.define("ml", arrSort(sInt), store(lh, m.ts[0], ite(had, sub(sel(lh, m.ts[0]), "1"), sel(lh, m.ts[0]))))
	st.heaps[has[0]] = fx.define("mh", arrSort(hasSort), store(h, m.ts[0], store(sel(h, m.ts[0]), kt, "false")))
}

func (fr *Frame) mapClear(m Val, st *State) {
	fx := fr.fx
	has, _, hasSort, _, keySort := mapHeaps(m.sh)
	h := fx.heapTerm(st, has[0], arrSort(hasSort))
	st.heaps[has[0]] = store(h, m.ts[0], fmt.Sprintf("((as const (Array %s Bool)) false)", keySort))
	lh := fx.heapTerm(st, "ML|"+m.sh.key, arrSort(sInt))
	st.heaps["ML|"+m.sh.key] = store(lh, m.ts[0], "0")
}

func (fr *Frame) execLookup(x *ssa.Lookup, st *State) {
	fx := fr.fx
	m := fr.val(x.X)
	k := fr.val(x.Index)
	if m.sh.kind == KStr {
		unsupp("string lookup instruction")
	}
	has := and(not(eq(m.ts[0], "0")), fx.mapHas(st, m, k))
	has = fx.defineBool("has", has)
	v := fx.mapGet(st, m, k)
	z := zeroVal(m.sh.elem)
	res := iteVal(has, v, z)
	fx.assume(st.guard, imp(has, typeInvariant(res)))
	fx.assumeRefsBelow(st, res)
	if x.CommaOk {
		tsh := shapeOf(x.Type())
		fr.regs[x] = Val{sh: tsh, ts: append(append([]T{}, res.ts...), has)}
		return
	}
	fr.regs[x] = res
}

// intrinsic handles a few library functions natively.
func (fr *Frame) intrinsic(key string, callee *ssa.Function, args []Val, st *State, pos token.Pos) (*Val, bool) {
	fx := fr.fx
	if strings.HasSuffix(key, ".structPtr") && len(args) == 2 {
		// container-of: from the address of an embedded field back to the
		// enclosing object (inverse of the embedded-field address)
		fx.noteAssumption("structPtr(p, Offsetof(T{}.f)) is the inverse of taking the address of the embedded field f")
		out := mkInt(shapeOf(callee.Signature.Results().At(0).Type()), fx.define("owner", sInt, fx.embOwner(args[0].t())))
		return &out, true
	}
	switch key {
	case "errors.As":
		// errors.As(err, target): target is a non-nil pointer; on success the
		// pointee is set to a non-nil value, otherwise it is left alone.
		if len(args) != 2 {
			return nil, false
		}
		tgt := args[1]
		id, ok := isNumLit(tgt.ifTyp())
		if !ok || id <= 0 || int(id) > len(fx.eng.tids.typs) {
			unsupp("errors.As with a target of unknown static type")
		}
		pt, isPtr := fx.eng.tids.typs[id-1].(*types.Pointer)
		if !isPtr {
			unsupp("errors.As target is not a pointer")
		}
		fx.oblige("panic", fr.path+"/panic/errors.As_target_nil#", st, not(eq(tgt.ifBox(), "0")), pos, "errors.As panics on a nil target")
		esh := shapeOf(pt.Elem())
		okv := fx.decls.Fresh("as_ok", sBool)
		old := fx.loadObj(st, esh, tgt.ifBox())
		nv := freshVal(fx.decls, esh, "as_target")
		fx.assume(st.guard, typeInvariant(nv))
		fx.assumeRefsBelow(st, nv)
		fx.assume(st.guard, imp(okv, not(eq(nv.ts[0], "0"))))
		fx.assume(st.guard, imp(eq(args[0].ifTyp(), "0"), not(okv)))
		merged := iteVal(okv, nv, old)
		fx.storeObjComps(st, esh, tgt.ifBox(), 0, merged.ts)
		fx.noteAssumption("errors.As: on success the target receives a non-nil value of its type; otherwise it is unchanged")
		out := mkBool(shapeOf(types.Typ[types.Bool]), okv)
		return &out, true
	}
	return nil, false
}
