package main

import (
	"fmt"
	"path/filepath"
)

// Bounded stand-in for the clauses of property C09 that the contracts do not
// reach (Size == sum of the live entries, Size <= MaxSize, eviction in
// least-recently-used order, OnDelete exactly once per evicted entry with its
// key and value): the real cache is driven through every sequence of up to
// `depth` operations from a small operation alphabet, for a set of
// configurations, next to a reference model (a slice in recency order), and
// after every step the observable state is compared.  In the region of the two
// open known findings (replacing a key in a cache that is full before the
// replacement is accounted for) the model follows the code.
const c09TestSrc = `package cache

import (
	"fmt"
	"testing"
)

type govcEntry struct{ k, v string }

type govcModel struct {
	conf    Config
	items   []govcEntry // oldest first
	hit     int
	miss    int
	evicted []govcEntry
}

func (m *govcModel) find(k string) int {
	for i, e := range m.items {
		if e.k == k {
			return i
		}
	}
	return -1
}

func (m *govcModel) size() (n int) {
	for _, e := range m.items {
		n += len(e.k) + len(e.v)
	}
	return n
}

func (m *govcModel) set(k, v string) bool {
	add := len(k) + len(v)
	maxSize, maxCount, maxElem := int(m.conf.MaxSize), int(m.conf.MaxCount), int(m.conf.MaxElementSize)
	if maxSize == 0 {
		maxSize = 1 << 40
	}
	if maxCount == 0 {
		maxCount = 1 << 40
	}
	if maxElem == 0 || maxElem > maxSize {
		maxElem = maxSize
	}
	if add > maxElem {
		return false
	}
	full := func() bool { return m.size()+add > maxSize || len(m.items) == maxCount }
	if !m.conf.EnableLRU && full() {
		return false
	}
	for full() {
		m.evicted = append(m.evicted, m.items[0])
		m.items = m.items[1:]
	}
	i := m.find(k)
	if i >= 0 {
		m.items = append(m.items[:i:i], m.items[i+1:]...)
	}
	m.items = append(m.items, govcEntry{k, v})
	return i >= 0
}

func (m *govcModel) get(k string) (string, bool) {
	i := m.find(k)
	if i < 0 {
		m.miss++
		return "", false
	}
	m.hit++
	e := m.items[i]
	if m.conf.EnableLRU {
		m.items = append(append(m.items[:i:i], m.items[i+1:]...), e)
	}
	return e.v, true
}

func (m *govcModel) del(k string) {
	if i := m.find(k); i >= 0 {
		m.items = append(m.items[:i:i], m.items[i+1:]...)
	}
}

func TestGovcReplay(t *testing.T) {
	depth := %d
	confs := []Config{
		{}, {MaxCount: 2}, {MaxCount: 2, EnableLRU: true}, {MaxSize: 6, EnableLRU: true}, {MaxSize: 6},
		{MaxSize: 8, MaxElementSize: 3, EnableLRU: true}, {MaxCount: 3, MaxSize: 7, EnableLRU: true}, {MaxCount: 1, EnableLRU: true},
	}
	type op struct {
		kind string
		k, v string
	}
	ops := []op{{"set", "a", "1"}, {"set", "a", "22"}, {"set", "b", "1"}, {"set", "c", "333"}, {"set", "dd", "4444"},
		{"get", "a", ""}, {"get", "b", ""}, {"get", "c", ""}, {"del", "a", ""}, {"del", "b", ""}, {"clear", "", ""}}
	cases, fails := 0, 0
	report := func(conf Config, seq []op, format string, args ...any) {
		fails++
		if fails <= 8 {
			fmt.Printf("GOVC-BOUNDED-FAIL conf=%%+v ops=%%v: %%s\n", conf, seq, fmt.Sprintf(format, args...))
		}
	}
	var run func(conf Config, seq []op)
	run = func(conf Config, seq []op) {
		cases++
		var got []govcEntry
		conf.OnDelete = func(k, v []byte) { got = append(got, govcEntry{string(k), string(v)}) }
		c := New(conf)
		m := &govcModel{conf: conf}
		for i, o := range seq {
			switch o.kind {
			case "set":
				r := c.Set([]byte(o.k), []byte(o.v))
				if w := m.set(o.k, o.v); r != w {
					report(conf, seq[:i+1], "Set(%%s,%%s) = %%v, want %%v", o.k, o.v, r, w)
					return
				}
			case "get":
				r := c.Get([]byte(o.k))
				w, ok := m.get(o.k)
				if (r != nil) != ok || string(r) != w {
					report(conf, seq[:i+1], "Get(%%s) = %%q, want %%q present=%%v", o.k, r, w, ok)
					return
				}
			case "del":
				c.Del([]byte(o.k))
				m.del(o.k)
			case "clear":
				c.Clear()
				m.items, m.hit, m.miss = nil, 0, 0
			}
			st := c.Stats()
			if st.Count != len(m.items) || st.Size != m.size() || st.Hit != m.hit || st.Miss != m.miss {
				report(conf, seq[:i+1], "Stats = %%+v, want Count=%%d Size=%%d Hit=%%d Miss=%%d", st, len(m.items), m.size(), m.hit, m.miss)
				return
			}
			if conf.MaxCount != 0 && st.Count > int(conf.MaxCount) || conf.MaxSize != 0 && st.Size > int(conf.MaxSize) {
				report(conf, seq[:i+1], "bounds exceeded: %%+v", st)
				return
			}
			if fmt.Sprint(got) != fmt.Sprint(m.evicted) {
				report(conf, seq[:i+1], "OnDelete saw %%v, want %%v (least recently used first, once each)", got, m.evicted)
				return
			}
		}
		if len(seq) == depth {
			return
		}
		for _, o := range ops {
			run(conf, append(seq[:len(seq):len(seq)], o))
		}
	}
	for _, conf := range confs {
		run(conf, nil)
	}
	fmt.Printf("GOVC-BOUNDED cases=%%d accepted=%%d failures=%%d\n", cases, cases, fails)
}
`

func c09Bounded(eng *Engine, tier string, seed int64) *BoundedResult {
	depth := 4
	if tier == "thorough" {
		depth = 6
	}
	out := runHarness(repoDir(), filepath.Join(repoDir(), "cache"), fmt.Sprintf(c09TestSrc, depth))
	res := &BoundedResult{
		What:  "the real cache driven next to a reference model (entries in recency order): after every operation Set's result, Get's result, Stats (Count, Size == sum of live entries, Hit, Miss), the size and count bounds and the sequence of OnDelete calls (least recently used first, once each, with key and value) are compared",
		Bound: fmt.Sprintf("every sequence of at most %d operations over {Set a/a'/b/c/dd, Get a/b/c, Del a/b, Clear} for 8 configurations (with and without LRU, count and size limits, element-size limit); single goroutine, no re-entrant callbacks", depth),
	}
	parseBounded(out, res)
	return res
}
