package main

import (
	"fmt"
	"go/types"
	"regexp"
	"sort"
	"strings"

	"golang.org/x/tools/go/ssa"
)

// Loop-contract adaptation.
//
// Loop invariants are proof artefacts: any invariants that discharge all
// obligations prove the function's contract.  The ones written in the
// contract files speak about locals under the convention the code had when
// they were written; a harmless rewrite such as
//
//	for n := 1; scan(); n++ { use(n) }   ->   n := 0; for scan() { n++; use(n) }
//
// leaves every clause bindable but makes them false at the loop head, and the
// failed establishment would be reported as a violation.  Before that happens
// the checker tries the same clauses with one integer local offset by +-1 at
// the head of that loop; if the adapted clauses discharge EVERY obligation of
// the function, the function is verified (with the adaptation recorded in the
// evidence) - otherwise the original verdict stands.

var establishedRe = regexp.MustCompile(`/loop(\d+)/inv_established/`)

// substIdent replaces free occurrences of the identifier name by repl.
func substIdent(e Expr, name string, repl Expr) Expr {
	switch x := e.(type) {
	case *EIdent:
		if x.Name == name {
			return repl
		}
		return x
	case *EUnary:
		return &EUnary{Op: x.Op, X: substIdent(x.X, name, repl)}
	case *EBinary:
		return &EBinary{Op: x.Op, L: substIdent(x.L, name, repl), R: substIdent(x.R, name, repl)}
	case *ECall:
		args := make([]Expr, len(x.Args))
		for i, a := range x.Args {
			args[i] = substIdent(a, name, repl)
		}
		return &ECall{Fn: x.Fn, Args: args}
	case *EIndex:
		return &EIndex{X: substIdent(x.X, name, repl), I: substIdent(x.I, name, repl)}
	case *ESlice:
		n := &ESlice{X: substIdent(x.X, name, repl)}
		if x.Lo != nil {
			n.Lo = substIdent(x.Lo, name, repl)
		}
		if x.Hi != nil {
			n.Hi = substIdent(x.Hi, name, repl)
		}
		return n
	case *EField:
		return &EField{X: substIdent(x.X, name, repl), Name: x.Name}
	case *EQuant:
		n := &EQuant{Forall: x.Forall, Var: x.Var, Body: x.Body}
		if x.Lo != nil {
			n.Lo = substIdent(x.Lo, name, repl)
		}
		if x.Hi != nil {
			n.Hi = substIdent(x.Hi, name, repl)
		}
		if x.Var != name {
			n.Body = substIdent(x.Body, name, repl)
		}
		return n
	case *ECond:
		n := &ECond{C: substIdent(x.C, name, repl), A: substIdent(x.A, name, repl)}
		if x.B != nil {
			n.B = substIdent(x.B, name, repl)
		}
		return n
	case *ELet:
		n := &ELet{Var: x.Var, Val: substIdent(x.Val, name, repl), Body: x.Body}
		if x.Var != name {
			n.Body = substIdent(x.Body, name, repl)
		}
		return n
	}
	return e
}

func identsOf(e Expr, out map[string]bool) {
	switch x := e.(type) {
	case *EIdent:
		out[x.Name] = true
	case *EUnary:
		identsOf(x.X, out)
	case *EBinary:
		identsOf(x.L, out)
		identsOf(x.R, out)
	case *ECall:
		for _, a := range x.Args {
			identsOf(a, out)
		}
	case *EIndex:
		identsOf(x.X, out)
		identsOf(x.I, out)
	case *ESlice:
		identsOf(x.X, out)
		if x.Lo != nil {
			identsOf(x.Lo, out)
		}
		if x.Hi != nil {
			identsOf(x.Hi, out)
		}
	case *EField:
		identsOf(x.X, out)
	case *EQuant:
		if x.Lo != nil {
			identsOf(x.Lo, out)
		}
		if x.Hi != nil {
			identsOf(x.Hi, out)
		}
		identsOf(x.Body, out)
	case *ECond:
		identsOf(x.C, out)
		identsOf(x.A, out)
		if x.B != nil {
			identsOf(x.B, out)
		}
	case *ELet:
		identsOf(x.Val, out)
		identsOf(x.Body, out)
	}
}

func shiftClauses(cs []Clause, name string, d int) []Clause {
	repl := Expr(&EBinary{Op: "+", L: &EIdent{Name: name}, R: &EInt{V: fmt.Sprint(d)}})
	if d < 0 {
		repl = &EBinary{Op: "-", L: &EIdent{Name: name}, R: &EInt{V: fmt.Sprint(-d)}}
	}
	out := make([]Clause, len(cs))
	for i, c := range cs {
		out[i] = c
		out[i].E = substIdent(c.E, name, repl)
	}
	return out
}

// adaptLoopContracts: see the comment at the top of the file.
func (run *checkRun) adaptLoopContracts(eng *Engine, gen map[string]*FuncSpec, timeoutS int) {
	for ri, r := range run.results {
		if r.Ctx == nil || r.Ctx.root == nil || r.Unsupported != "" || len(r.Ctx.bindErrors) > 0 {
			continue
		}
		// loops whose invariants fail to be established, and nothing else
		// but loop obligations and what follows from them may fail
		failing := map[int]bool{}
		anyFail := false
		for _, o := range r.Obligations {
			if !run.counts(r, o) || o.Result.Status == "unsat" {
				continue
			}
			anyFail = true
			if m := establishedRe.FindStringSubmatch(o.Name); m != nil {
				var k int
				fmt.Sscan(m[1], &k)
				failing[k] = true
			}
		}
		if !anyFail || len(failing) != 1 {
			continue
		}
		spec := eng.contracts.Funcs[r.Key]
		if spec == nil {
			continue
		}
		var k int
		for kk := range failing {
			k = kk
		}
		ls := spec.Loops[k]
		if ls == nil {
			continue
		}
		// integer locals of the function that the loop's clauses mention
		names := map[string]bool{}
		for _, c := range ls.Invariants {
			identsOf(c.E, names)
		}
		assumed := map[string]bool{}
		for _, c := range ls.Assumed {
			identsOf(c.E, assumed)
		}
		params := map[string]bool{}
		for _, p := range r.Ctx.root.Params {
			params[p.Name()] = true
		}
		var cands []string
		for n := range names {
			if assumed[n] || params[n] || strings.HasPrefix(n, "$") || n == "rangeindex" || n == "result" {
				continue
			}
			if !isIntLocal(r.Ctx.root, n) {
				continue
			}
			cands = append(cands, n)
		}
		sort.Strings(cands)
		orig := *ls
	search:
		for _, n := range cands {
			for _, d := range []int{1, -1} {
				mod := orig
				mod.Invariants = shiftClauses(orig.Invariants, n, d)
				mod.Steps = shiftClauses(orig.Steps, n, d)
				if orig.Decreases != nil {
					dc := shiftClauses([]Clause{*orig.Decreases}, n, d)[0]
					mod.Decreases = &dc
				}
				mod.Applies = shiftClauses(orig.Applies, n, d)
				mod.HeadApplies = shiftClauses(orig.HeadApplies, n, d)
				spec.Loops[k] = &mod
				nr := eng.verifyFunction(r.Key, gen[r.Key])
				spec.Loops[k] = &orig
				if nr.Unsupported != "" || (nr.Ctx != nil && len(nr.Ctx.bindErrors) > 0) {
					continue
				}
				for _, o := range nr.Obligations {
					if o.Result.Status == "" && !run.counts(nr, o) {
						o.Result = SolverResult{Status: "skipped", Solver: "not-part-of-property"}
					}
				}
				discharge([]*FuncResult{nr}, dischargeOpts{timeoutS: timeoutS, workers: 12})
				ok := true
				for _, o := range nr.Obligations {
					if run.counts(nr, o) && o.Result.Status != "unsat" {
						ok = false
						break
					}
				}
				if !ok {
					continue
				}
				sign := "+"
				if d < 0 {
					sign = "-"
				}
				run.results[ri] = nr
				run.notes = append(run.notes, fmt.Sprintf("%s: the invariants of loop %d are not established as written; with the local %s read as %s %s 1 at the head of that loop (a different counting convention of the same loop) they discharge every obligation of the function, which is therefore verified with the adapted loop contract", shortKey(r.Key), k, n, n, sign))
				break search
			}
		}
		spec.Loops[k] = &orig
	}
}

// isIntLocal: does fn have a local variable of an integer type with that name?
func isIntLocal(fn *ssa.Function, name string) bool {
	for _, b := range fn.Blocks {
		for _, in := range b.Instrs {
			a, ok := in.(*ssa.Alloc)
			if !ok || a.Comment != name {
				continue
			}
			if pt, ok := a.Type().Underlying().(*types.Pointer); ok {
				if bt, ok := pt.Elem().Underlying().(*types.Basic); ok && bt.Info()&types.IsInteger != 0 {
					return true
				}
			}
		}
	}
	return false
}
