package main

import (
	"fmt"
	"go/types"
	"regexp"
	"sort"
	"strings"

	"golang.org/x/tools/go/ssa"
)

// Loop-contract adaptation.
//
// Loop invariants are proof artefacts: any invariants that discharge all
// obligations prove the function's contract.  The ones written in the
// contract files speak about locals under the convention the code had when
// they were written; a harmless rewrite such as
//
//	for n := 1; scan(); n++ { use(n) }   ->   n := 0; for scan() { n++; use(n) }
//
// leaves every clause bindable but makes them false at the loop head, and the
// failed establishment would be reported as a violation.  Before that happens
// the checker tries the same clauses with one integer local offset by +-1 at
// the head of that loop; if the adapted clauses discharge EVERY obligation of
// the function, the function is verified (with the adaptation recorded in the
// evidence) - otherwise the original verdict stands.

var establishedRe = regexp.MustCompile(`/loop(\d+)/inv_established/`)

// substIdent replaces free occurrences of the identifier name by repl.
func substIdent(e Expr, name string, repl Expr) Expr {
	switch x := e.(type) {
	case *EIdent:
		if x.Name == name {
			return repl
		}
		return x
	case *EUnary:
		return &EUnary{Op: x.Op, X: substIdent(x.X, name, repl)}
	case *EBinary:
		return &EBinary{Op: x.Op, L: substIdent(x.L, name, repl), R: substIdent(x.R, name, repl)}
	case *ECall:
		args := make([]Expr, len(x.Args))
		for i, a := range x.Args {
			args[i] = substIdent(a, name, repl)
		}
		return &ECall{Fn: x.Fn, Args: args}
	case *EIndex:
		return &EIndex{X: substIdent(x.X, name, repl), I: substIdent(x.I, name, repl)}
	case *ESlice:
		n := &ESlice{X: substIdent(x.X, name, repl)}
		if x.Lo != nil {
			n.Lo = substIdent(x.Lo, name, repl)
		}
		if x.Hi != nil {
			n.Hi = substIdent(x.Hi, name, repl)
		}
		return n
	case *EField:
		return &EField{X: substIdent(x.X, name, repl), Name: x.Name}
	case *EQuant:
		n := &EQuant{Forall: x.Forall, Var: x.Var, Body: x.Body}
		if x.Lo != nil {
			n.Lo = substIdent(x.Lo, name, repl)
		}
		if x.Hi != nil {
			n.Hi = substIdent(x.Hi, name, repl)
		}
		if x.Var != name {
			n.Body = substIdent(x.Body, name, repl)
		}
		return n
	case *ECond:
		n := &ECond{C: substIdent(x.C, name, repl), A: substIdent(x.A, name, repl)}
		if x.B != nil {
			n.B = substIdent(x.B, name, repl)
		}
		return n
	case *ELet:
		n := &ELet{Var: x.Var, Val: substIdent(x.Val, name, repl), Body: x.Body}
		if x.Var != name {
			n.Body = substIdent(x.Body, name, repl)
		}
		return n
	}
	return e
}

func identsOf(e Expr, out map[string]bool) {
	switch x := e.(type) {
	case *EIdent:
		out[x.Name] = true
	case *EUnary:
		identsOf(x.X, out)
	case *EBinary:
		identsOf(x.L, out)
		identsOf(x.R, out)
	case *ECall:
		for _, a := range x.Args {
			identsOf(a, out)
		}
	case *EIndex:
		identsOf(x.X, out)
		identsOf(x.I, out)
	case *ESlice:
		identsOf(x.X, out)
		if x.Lo != nil {
			identsOf(x.Lo, out)
		}
		if x.Hi != nil {
			identsOf(x.Hi, out)
		}
	case *EField:
		identsOf(x.X, out)
	case *EQuant:
		if x.Lo != nil {
			identsOf(x.Lo, out)
		}
		if x.Hi != nil {
			identsOf(x.Hi, out)
		}
		identsOf(x.Body, out)
	case *ECond:
		identsOf(x.C, out)
		identsOf(x.A, out)
		if x.B != nil {
			identsOf(x.B, out)
		}
	case *ELet:
		identsOf(x.Val, out)
		identsOf(x.Body, out)
	}
}

func shiftClauses(cs []Clause, name string, d int) []Clause {
	repl := Expr(&EBinary{Op: "+", L: &EIdent{Name: name}, R: &EInt{V: fmt.Sprint(d)}})
	if d < 0 {
		repl = &EBinary{Op: "-", L: &EIdent{Name: name}, R: &EInt{V: fmt.Sprint(-d)}}
	}
	out := make([]Clause, len(cs))
	for i, c := range cs {
		out[i] = c
		out[i].E = substIdent(c.E, name, repl)
	}
	return out
}

// adaptLoopContracts: see the comment at the top of the file.
func (run *checkRun) adaptLoopContracts(eng *Engine, gen map[string]*FuncSpec, timeoutS int) {
	for ri, r := range run.results {
		if r.Ctx == nil || r.Ctx.root == nil || r.Unsupported != "" || len(r.Ctx.bindErrors) > 0 {
			continue
		}
		// loops whose invariants fail to be established, and nothing else
		// but loop obligations and what follows from them may fail
		failing := map[int]bool{}
		anyFail := false
		for _, o := range r.Obligations {
			if !run.counts(r, o) || o.Result.Status == "unsat" {
				continue
			}
			anyFail = true
			if m := establishedRe.FindStringSubmatch(o.Name); m != nil {
				var k int
				fmt.Sscan(m[1], &k)
				failing[k] = true
			}
		}
		if !anyFail || len(failing) != 1 {
			continue
		}
		spec := eng.contracts.Funcs[r.Key]
		if spec == nil {
			continue
		}
		var k int
		for kk := range failing {
			k = kk
		}
		ls := spec.Loops[k]
		if ls == nil {
			continue
		}
		// integer locals of the function that the loop's clauses mention
		names := map[string]bool{}
		for _, c := range ls.Invariants {
			identsOf(c.E, names)
		}
		assumed := map[string]bool{}
		for _, c := range ls.Assumed {
			identsOf(c.E, assumed)
		}
		params := map[string]bool{}
		for _, p := range r.Ctx.root.Params {
			params[p.Name()] = true
		}
		var cands []string
		for n := range names {
			if assumed[n] || params[n] || strings.HasPrefix(n, "$") || n == "rangeindex" || n == "result" {
				continue
			}
			if !isIntLocal(r.Ctx.root, n) {
				continue
			}
			cands = append(cands, n)
		}
		sort.Strings(cands)
		orig := *ls
	search:
		for _, n := range cands {
			for _, d := range []int{1, -1} {
				mod := orig
				mod.Invariants = shiftClauses(orig.Invariants, n, d)
				mod.Steps = shiftClauses(orig.Steps, n, d)
				if orig.Decreases != nil {
					dc := shiftClauses([]Clause{*orig.Decreases}, n, d)[0]
					mod.Decreases = &dc
				}
				mod.Applies = shiftClauses(orig.Applies, n, d)
				mod.HeadApplies = shiftClauses(orig.HeadApplies, n, d)
				spec.Loops[k] = &mod
				nr := eng.verifyFunction(r.Key, gen[r.Key])
				spec.Loops[k] = &orig
				if nr.Unsupported != "" || (nr.Ctx != nil && len(nr.Ctx.bindErrors) > 0) {
					continue
				}
				for _, o := range nr.Obligations {
					if o.Result.Status == "" && !run.counts(nr, o) {
						o.Result = SolverResult{Status: "skipped", Solver: "not-part-of-property"}
					}
				}
				// cheap filter first: the adapted invariants must at least
				// be established
				est := &FuncResult{Key: nr.Key, Ctx: nr.Ctx}
				for _, o := range nr.Obligations {
					if o.Result.Status == "" && strings.Contains(o.Name, "/inv_established/") {
						est.Obligations = append(est.Obligations, o)
					}
				}
				discharge([]*FuncResult{est}, dischargeOpts{timeoutS: 6, workers: 12})
				estOK := true
				for _, o := range est.Obligations {
					if o.Result.Status != "unsat" {
						estOK = false
					}
				}
				if !estOK {
					continue
				}
				cover := nr.Cover
				nr.Cover = nil
				discharge([]*FuncResult{nr}, dischargeOpts{timeoutS: timeoutS, workers: 12})
				nr.Cover = cover
				ok := true
				for _, o := range nr.Obligations {
					if run.counts(nr, o) && o.Result.Status != "unsat" {
						ok = false
						break
					}
				}
				if !ok {
					continue
				}
				sign := "+"
				if d < 0 {
					sign = "-"
				}
				run.results[ri] = nr
				run.notes = append(run.notes, fmt.Sprintf("%s: the invariants of loop %d are not established as written; with the local %s read as %s %s 1 at the head of that loop (a different counting convention of the same loop) they discharge every obligation of the function, which is therefore verified with the adapted loop contract", shortKey(r.Key), k, n, n, sign))
				break search
			}
		}
		spec.Loops[k] = &orig
	}
}

// isIntLocal: does fn have a local variable of an integer type with that name?
func isIntLocal(fn *ssa.Function, name string) bool {
	for _, b := range fn.Blocks {
		for _, in := range b.Instrs {
			a, ok := in.(*ssa.Alloc)
			if !ok || a.Comment != name {
				continue
			}
			if pt, ok := a.Type().Underlying().(*types.Pointer); ok {
				if bt, ok := pt.Elem().Underlying().(*types.Basic); ok && bt.Info()&types.IsInteger != 0 {
					return true
				}
			}
		}
	}
	return false
}

// ---------------------------------------------------------------------------
// Renamed locals.
//
// Loop clauses name locals of the function.  After a pure renaming of locals
// the clauses no longer bind and the function would be UNDECIDED.  The same
// argument as above applies - any clauses that discharge every obligation
// prove the contract - so the checker tries to read each unknown name as one
// of the function's locals that no clause mentions, and accepts an assignment
// only if the renamed clauses bind and discharge EVERY obligation.

var unknownNameRe = regexp.MustCompile(`unknown name \\?"([A-Za-z_][A-Za-z0-9_]*)\\?"`)

func renameClauses(cs []Clause, m map[string]string) []Clause {
	out := make([]Clause, len(cs))
	for i, c := range cs {
		out[i] = c
		e := c.E
		for from, to := range m {
			e = substIdent(e, from, &EIdent{Name: "\x00" + to})
		}
		out[i].E = unmark(e)
	}
	return out
}

// unmark removes the marker that keeps simultaneous renamings from chaining.
func unmark(e Expr) Expr {
	switch x := e.(type) {
	case *EIdent:
		if strings.HasPrefix(x.Name, "\x00") {
			return &EIdent{Name: x.Name[1:]}
		}
		return x
	case *EUnary:
		return &EUnary{Op: x.Op, X: unmark(x.X)}
	case *EBinary:
		return &EBinary{Op: x.Op, L: unmark(x.L), R: unmark(x.R)}
	case *ECall:
		args := make([]Expr, len(x.Args))
		for i, a := range x.Args {
			args[i] = unmark(a)
		}
		return &ECall{Fn: x.Fn, Args: args}
	case *EIndex:
		return &EIndex{X: unmark(x.X), I: unmark(x.I)}
	case *ESlice:
		n := &ESlice{X: unmark(x.X)}
		if x.Lo != nil {
			n.Lo = unmark(x.Lo)
		}
		if x.Hi != nil {
			n.Hi = unmark(x.Hi)
		}
		return n
	case *EField:
		return &EField{X: unmark(x.X), Name: x.Name}
	case *EQuant:
		n := &EQuant{Forall: x.Forall, Var: x.Var, Body: unmark(x.Body)}
		if x.Lo != nil {
			n.Lo = unmark(x.Lo)
		}
		if x.Hi != nil {
			n.Hi = unmark(x.Hi)
		}
		return n
	case *ECond:
		n := &ECond{C: unmark(x.C), A: unmark(x.A)}
		if x.B != nil {
			n.B = unmark(x.B)
		}
		return n
	case *ELet:
		return &ELet{Var: x.Var, Val: unmark(x.Val), Body: unmark(x.Body)}
	}
	return e
}

func renameSpec(spec *FuncSpec, m map[string]string) *FuncSpec {
	n := *spec
	n.Requires = renameClauses(spec.Requires, m)
	n.Ensures = renameClauses(spec.Ensures, m)
	n.Applies = renameClauses(spec.Applies, m)
	n.ExitApplies = renameClauses(spec.ExitApplies, m)
	n.CbRequires = renameClauses(spec.CbRequires, m)
	n.CbEnsures = renameClauses(spec.CbEnsures, m)
	n.Recovers = renameClauses(spec.Recovers, m)
	n.Loops = map[int]*LoopSpec{}
	for k, ls := range spec.Loops {
		c := *ls
		c.Invariants = renameClauses(ls.Invariants, m)
		c.Assumed = renameClauses(ls.Assumed, m)
		c.Steps = renameClauses(ls.Steps, m)
		c.Applies = renameClauses(ls.Applies, m)
		c.HeadApplies = renameClauses(ls.HeadApplies, m)
		if ls.Decreases != nil {
			d := renameClauses([]Clause{*ls.Decreases}, m)[0]
			c.Decreases = &d
		}
		n.Loops[k] = &c
	}
	if len(spec.StoreChecks) > 0 {
		n.StoreChecks = map[string][]Clause{}
		for v, cs := range spec.StoreChecks {
			nv := v
			if to, ok := m[v]; ok {
				nv = to
			}
			n.StoreChecks[nv] = renameClauses(cs, m)
		}
	}
	return &n
}

func specIdents(spec *FuncSpec) map[string]bool {
	out := map[string]bool{}
	add := func(cs []Clause) {
		for _, c := range cs {
			identsOf(c.E, out)
		}
	}
	add(spec.Requires)
	add(spec.Ensures)
	add(spec.Applies)
	add(spec.ExitApplies)
	add(spec.CbRequires)
	add(spec.CbEnsures)
	add(spec.Recovers)
	for _, ls := range spec.Loops {
		add(ls.Invariants)
		add(ls.Assumed)
		add(ls.Steps)
		add(ls.Applies)
		add(ls.HeadApplies)
		if ls.Decreases != nil {
			identsOf(ls.Decreases.E, out)
		}
	}
	for v, cs := range spec.StoreChecks {
		out[v] = true
		add(cs)
	}
	for _, ac := range spec.AtCalls {
		identsOf(ac.Clause.E, out)
	}
	return out
}

func localNames(fn *ssa.Function) []string {
	seen := map[string]bool{}
	var out []string
	for _, b := range fn.Blocks {
		for _, in := range b.Instrs {
			if a, ok := in.(*ssa.Alloc); ok && a.Comment != "" && !seen[a.Comment] &&
				!strings.ContainsAny(a.Comment, " .()[]{}") {
				seen[a.Comment] = true
				out = append(out, a.Comment)
			}
		}
	}
	sort.Strings(out)
	return out
}

// adaptRenames runs right after VC generation (before the obligations are
// discharged): results whose contract names unknown locals are regenerated
// with those names read as unused locals of the function.
func (run *checkRun) adaptRenames(eng *Engine, gen map[string]*FuncSpec, timeoutS int) {
	for ri, r := range run.results {
		if r.Ctx == nil || r.Ctx.root == nil {
			continue
		}
		text := strings.Join(r.Ctx.bindErrors, "\n") + "\n" + r.Unsupported
		unknown := map[string]bool{}
		for _, m := range unknownNameRe.FindAllStringSubmatch(text, -1) {
			unknown[m[1]] = true
		}
		// only when unknown names are the whole problem
		if len(unknown) == 0 || len(unknown) > 3 {
			continue
		}
		other := false
		for _, b := range r.Ctx.bindErrors {
			if !strings.Contains(b, "unknown name") {
				other = true
			}
		}
		if other || (r.Unsupported != "" && !strings.Contains(r.Unsupported, "unknown name")) {
			continue
		}
		spec := eng.contracts.Funcs[r.Key]
		if spec == nil {
			continue
		}
		used := specIdents(spec)
		params := map[string]bool{}
		for _, p := range r.Ctx.root.Params {
			params[p.Name()] = true
		}
		var cands []string
		for _, n := range localNames(r.Ctx.root) {
			if !used[n] && !params[n] {
				cands = append(cands, n)
			}
		}
		var names []string
		for u := range unknown {
			names = append(names, u)
		}
		sort.Strings(names)
		if len(cands) < len(names) {
			continue
		}
		// all injective assignments names -> cands (bounded)
		var assigns []map[string]string
		var rec func(i int, cur map[string]string, taken map[string]bool)
		rec = func(i int, cur map[string]string, taken map[string]bool) {
			if len(assigns) >= 120 {
				return
			}
			if i == len(names) {
				m := map[string]string{}
				for k, v := range cur {
					m[k] = v
				}
				assigns = append(assigns, m)
				return
			}
			for _, c := range cands {
				if taken[c] {
					continue
				}
				taken[c] = true
				cur[names[i]] = c
				rec(i+1, cur, taken)
				delete(cur, names[i])
				taken[c] = false
			}
		}
		rec(0, map[string]string{}, map[string]bool{})
		tried := 0
		for _, m := range assigns {
			eng.contracts.Funcs[r.Key] = renameSpec(spec, m)
			nr := eng.verifyFunction(r.Key, gen[r.Key])
			eng.contracts.Funcs[r.Key] = spec
			if nr.Unsupported != "" || nr.Ctx == nil || len(nr.Ctx.bindErrors) > 0 {
				continue
			}
			tried++
			if tried > 12 {
				break
			}
			for _, o := range nr.Obligations {
				if o.Result.Status == "" && !run.counts(nr, o) {
					o.Result = SolverResult{Status: "skipped", Solver: "not-part-of-property"}
				}
			}
			// cheap filter first: the invariants must at least be established
			est := &FuncResult{Key: nr.Key, Ctx: nr.Ctx}
			for _, o := range nr.Obligations {
				if o.Result.Status == "" && strings.Contains(o.Name, "/inv_established/") {
					est.Obligations = append(est.Obligations, o)
				}
			}
			discharge([]*FuncResult{est}, dischargeOpts{timeoutS: 6, workers: 12})
			bad := false
			for _, o := range est.Obligations {
				if o.Result.Status != "unsat" {
					bad = true
				}
			}
			if bad {
				continue
			}
			cover := nr.Cover
			nr.Cover = nil
			discharge([]*FuncResult{nr}, dischargeOpts{timeoutS: timeoutS, workers: 12})
			nr.Cover = cover
			ok := true
			for _, o := range nr.Obligations {
				if run.counts(nr, o) && o.Result.Status != "unsat" {
					ok = false
					break
				}
			}
			if !ok {
				continue
			}
			var pairs []string
			for _, n := range names {
				pairs = append(pairs, n+" -> "+m[n])
			}
			run.results[ri] = nr
			run.notes = append(run.notes, fmt.Sprintf("%s: the contract names locals that no longer exist; read as renamed locals (%s) its clauses bind and discharge every obligation of the function, which is therefore verified with the renamed contract", shortKey(r.Key), strings.Join(pairs, ", ")))
			break
		}
	}
}
