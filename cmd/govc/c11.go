package main

import (
	"fmt"
	"path/filepath"
)

// Bounded stand-in for the two gaps of the C11 proof (which values
// NewSortedSliceSet / Clone hold - the membership chain through slices.Sort
// and slices.Compact did not discharge - and that MapSet.Values has no
// duplicates): the three containers are driven through every short sequence
// of operations next to reference models and compared after every step.
const c11TestSrc = `package container_test

import (
	"fmt"
	"slices"
	"testing"

	"github.com/AdguardTeam/golibs/container"
)

func TestGovcReplay(t *testing.T) {
	depth := %d
	cases, fails := 0, 0
	report := func(format string, args ...any) {
		fails++
		if fails <= 8 {
			fmt.Printf("GOVC-BOUNDED-FAIL "+format+"\n", args...)
		}
	}
	sorted := func(m map[int]bool) []int {
		var out []int
		for k := range m {
			out = append(out, k)
		}
		slices.Sort(out)
		return out
	}
	// sets: ops add/delete 1..3, clone-and-diverge, clear
	type op struct {
		kind string
		v    int
	}
	ops := []op{{"add", 1}, {"add", 2}, {"add", 3}, {"del", 1}, {"del", 2}, {"clear", 0}, {"clone", 0}}
	inits := [][]int{nil, {}, {2}, {3, 1, 3}, {2, 2, 1}}
	var runSet func(init []int, seq []op)
	runSet = func(init []int, seq []op) {
		cases++
		ss := container.NewSortedSliceSet(slices.Clone(init)...)
		ms := container.NewMapSet(init...)
		ref := map[int]bool{}
		for _, v := range init {
			ref[v] = true
		}
		for _, o := range seq {
			switch o.kind {
			case "add":
				ss.Add(o.v)
				ms.Add(o.v)
				ref[o.v] = true
			case "del":
				ss.Delete(o.v)
				ms.Delete(o.v)
				delete(ref, o.v)
			case "clear":
				ss.Clear()
				ms.Clear()
				ref = map[int]bool{}
			case "clone":
				// the clones must hold the same values and must not be affected by (or affect) the origin
				cs, cm := ss.Clone(), ms.Clone()
				if !ss.Equal(cs) || !ms.Equal(cm) {
					report("init=%%v ops=%%v: clone differs from its origin", init, seq)
					return
				}
				cs.Add(99)
				cm.Add(99)
				if ss.Has(99) || ms.Has(99) {
					report("init=%%v ops=%%v: adding to a clone changed the origin", init, seq)
					return
				}
			}
			want := sorted(ref)
			if got := ss.Values(); !slices.Equal(got, want) && !(len(got) == 0 && len(want) == 0) {
				report("init=%%v ops=%%v: SortedSliceSet.Values = %%v, want %%v", init, seq, got, want)
				return
			}
			gotM := ms.Values()
			slices.Sort(gotM)
			if !slices.Equal(gotM, want) && !(len(gotM) == 0 && len(want) == 0) {
				report("init=%%v ops=%%v: MapSet.Values (sorted) = %%v, want %%v", init, seq, gotM, want)
				return
			}
			if ss.Len() != len(want) || ms.Len() != len(want) {
				report("init=%%v ops=%%v: Len = %%d / %%d, want %%d", init, seq, ss.Len(), ms.Len(), len(want))
				return
			}
			for v := 0; v <= 4; v++ {
				if ss.Has(v) != ref[v] || ms.Has(v) != ref[v] {
					report("init=%%v ops=%%v: Has(%%d) = %%v / %%v, want %%v", init, seq, v, ss.Has(v), ms.Has(v), ref[v])
					return
				}
			}
			var ranged []int
			ss.Range(func(v int) bool { ranged = append(ranged, v); return true })
			if !slices.Equal(ranged, want) && !(len(ranged) == 0 && len(want) == 0) {
				report("init=%%v ops=%%v: Range visited %%v, want %%v", init, seq, ranged, want)
				return
			}
		}
		if len(seq) == depth {
			return
		}
		for _, o := range ops {
			runSet(init, append(seq[:len(seq):len(seq)], o))
		}
	}
	for _, init := range inits {
		runSet(init, nil)
	}
	// ring buffer: sizes 0..3, ops push 1..2 / clear
	var runRing func(size int, seq []int)
	runRing = func(size int, seq []int) {
		cases++
		rb := container.NewRingBuffer[int](uint(size))
		var ref []int
		for _, v := range seq {
			if v == 0 {
				rb.Clear()
				ref = nil
			} else {
				rb.Push(v)
				if size > 0 {
					ref = append(ref, v)
					if len(ref) > size {
						ref = ref[1:]
					}
				}
			}
			var got, rev []int
			rb.Range(func(v int) bool { got = append(got, v); return true })
			rb.ReverseRange(func(v int) bool { rev = append(rev, v); return true })
			slices.Reverse(rev)
			if !slices.Equal(got, ref) || !slices.Equal(rev, ref) || int(rb.Len()) != len(ref) {
				report("ring size=%%d ops=%%v: Range=%%v ReverseRange(reversed)=%%v Len=%%d, want %%v", size, seq, got, rev, rb.Len(), ref)
				return
			}
			wantCur := 0
			if size > 0 && len(ref) == size {
				wantCur = ref[0]
			}
			if rb.Current() != wantCur {
				report("ring size=%%d ops=%%v: Current=%%d, want %%d", size, seq, rb.Current(), wantCur)
				return
			}
		}
		if len(seq) == depth+2 {
			return
		}
		for _, v := range []int{1, 2, 0} {
			runRing(size, append(seq[:len(seq):len(seq)], v))
		}
	}
	for size := 0; size <= 3; size++ {
		runRing(size, nil)
	}
	fmt.Printf("GOVC-BOUNDED cases=%%d accepted=%%d failures=%%d\n", cases, cases, fails)
}
`

func c11Bounded(eng *Engine, tier string, seed int64) *BoundedResult {
	depth := 4
	if tier == "thorough" {
		depth = 6
	}
	out := runHarness(repoDir(), filepath.Join(repoDir(), "container"), fmt.Sprintf(c11TestSrc, depth))
	res := &BoundedResult{
		What:  "SortedSliceSet and MapSet driven next to a reference set (Values, Len, Has, Range, Equal of clones, independence of clones), RingBuffer next to a reference window (Range, ReverseRange, Len, Current)",
		Bound: fmt.Sprintf("every sequence of at most %d operations over {Add 1..3, Delete 1..2, Clear, Clone} from 5 initial argument lists (nil, empty, duplicates, unsorted); ring buffers of size 0..3 with every sequence of at most %d pushes / clears", depth, depth+2),
	}
	parseBounded(out, res)
	return res
}
