package main

import (
	"path/filepath"
	"strings"
)

// Bounded stand-in for the part of property C19 that the contracts do not
// reach (Handle: one well-formed two-member JSON line per record whose message
// is the slog.TextHandler line with the accumulated attributes): slog.Record
// is opaque to the generator.  Sequential; the non-interleaving clause is not
// covered by anything here.
const c19TestSrc = `package slogutil_test

import (
	"bytes"
	"context"
	"encoding/json"
	"fmt"
	"log/slog"
	"runtime"
	"strings"
	"testing"
	"time"

	"github.com/AdguardTeam/golibs/logutil/slogutil"
)

func TestGovcReplay(t *testing.T) {
	cases, fails := 0, 0
	report := func(format string, args ...any) {
		fails++
		if fails <= 8 {
			fmt.Printf("GOVC-BOUNDED-FAIL "+format+"\n", args...)
		}
	}
	levels := []slog.Level{slog.LevelDebug, slog.LevelInfo, slog.LevelWarn, slog.LevelError, slog.LevelError + 4, slog.LevelError - 1}
	msgs := []string{"m", "two words", "quote\"and\\slash", "new\nline", "<&>", ""}
	attrSets := [][]slog.Attr{nil, {slog.String("a", "1")}, {slog.Int("n", 2), slog.String("s", "x y")}}
	noTime := func(_ []string, a slog.Attr) slog.Attr {
		if a.Key == slog.TimeKey {
			return slog.Attr{}
		}
		return a
	}
	// drops the built-in attributes: a record without attributes renders as
	// an empty line
	dropBuiltins := func(groups []string, a slog.Attr) slog.Attr {
		if len(groups) == 0 && (a.Key == slog.TimeKey || a.Key == slog.LevelKey || a.Key == slog.MessageKey) {
			return slog.Attr{}
		}
		return a
	}
	var pcs [1]uintptr
	runtime.Callers(1, pcs[:])
	optsList := []*slog.HandlerOptions{
		{Level: slog.LevelDebug, ReplaceAttr: noTime},
		{Level: slog.LevelInfo, ReplaceAttr: noTime},
		{Level: slog.LevelError, ReplaceAttr: noTime},
		{Level: slog.LevelInfo, ReplaceAttr: noTime, AddSource: true},
		{ReplaceAttr: dropBuiltins},
		{AddSource: true},
		nil,
	}
	for _, opts := range optsList {
		conf := slog.LevelInfo
		if opts != nil && opts.Level != nil {
			conf = opts.Level.Level()
		}
		for _, chain := range [][]int{{}, {1}, {1, 2}, {2, 1}} {
			out := &bytes.Buffer{}
			var h slog.Handler = slogutil.NewJSONHybridHandler(out, opts)
			ref := &bytes.Buffer{}
			var rh slog.Handler = slog.NewTextHandler(ref, opts)
			// a sibling derived from the same parent must not leak its attributes
			sibling := h.WithAttrs([]slog.Attr{slog.String("sibling", "leak")})
			_ = sibling
			// the statement: the TextHandler line for the record "with the
			// handler's accumulated attributes appended" (after the record's own)
			var accumulated []slog.Attr
			for _, ai := range chain {
				h = h.WithAttrs(attrSets[ai])
				accumulated = append(accumulated, attrSets[ai]...)
			}
			for _, lvl := range levels {
				if h.Enabled(context.Background(), lvl) != (lvl >= conf) {
					report("Enabled(%%v) with configured level %%v", lvl, conf)
				}
				for _, msg := range msgs {
					for _, extra := range attrSets {
						cases++
						out.Reset()
						ref.Reset()
						r := slog.NewRecord(time.Time{}, lvl, msg, pcs[0])
						r.AddAttrs(extra...)
						if err := h.Handle(context.Background(), r); err != nil {
							report("Handle: %%v", err)
							continue
						}
						r2 := r.Clone()
						r2.AddAttrs(accumulated...)
						_ = rh.Handle(context.Background(), r2)
						line := out.String()
						if strings.Count(line, "\n") != 1 || !strings.HasSuffix(line, "\n") {
							report("not exactly one newline-terminated line: %%q", line)
							continue
						}
						var obj map[string]any
						if err := json.Unmarshal([]byte(line), &obj); err != nil || len(obj) != 2 {
							report("not a two-member JSON object: %%q (%%v)", line, err)
							continue
						}
						sev := "NORMAL"
						if lvl >= slog.LevelError {
							sev = "ERROR"
						}
						if obj["severity"] != sev {
							report("severity %%v for level %%v", obj["severity"], lvl)
						}
						if want := strings.TrimSuffix(ref.String(), "\n"); obj["message"] != want {
							report("message %%q, want the TextHandler line %%q", obj["message"], want)
						}
					}
				}
			}
		}
	}
	fmt.Printf("GOVC-BOUNDED cases=%%d accepted=%%d failures=%%d\n", cases, cases, fails)
}
`

func c19Bounded(eng *Engine, tier string, seed int64) *BoundedResult {
	out := runHarness(repoDir(), filepath.Join(repoDir(), "logutil", "slogutil"), strings.ReplaceAll(c19TestSrc, "%%", "%"))
	res := &BoundedResult{
		What:  "every record of the enumeration handled by a JSONHybridHandler (through chains of WithAttrs, next to a sibling with other attributes) yields exactly one newline-terminated JSON object with the two members severity (ERROR for levels >= Error, else NORMAL) and message, the message being the line a slog.TextHandler with the same options and attributes prints; Enabled(l) iff l >= the configured level",
		Bound: "7 option sets (3 configured levels, AddSource with a real program counter, a ReplaceAttr that drops the built-in attributes so that a bare record renders as an empty line, nil options) x 4 WithAttrs chains x 6 record levels x 6 messages (quotes, backslash, newline, HTML characters, empty) x 3 attribute sets; one goroutine",
	}
	parseBounded(out, res)
	return res
}
