package main

import (
	"fmt"
	"os"
	"sort"
	"strings"
)

func main() {
	if len(os.Args) < 2 {
		fmt.Fprintln(os.Stderr, "usage: govc check <property> [--tier quick|thorough] | govc verify <pkgpattern> <funckey>... | govc replay <file>")
		os.Exit(2)
	}
	switch os.Args[1] {
	case "verify":
		cmdVerify(os.Args[2:])
	case "check":
		os.Exit(cmdCheck(os.Args[2:]))
	case "replay":
		os.Exit(cmdReplay(os.Args[2:]))
	case "survey":
		os.Exit(cmdSurvey(os.Args[2:]))
	case "manifest":
		os.Exit(cmdManifest())
	case "loopcounts":
		os.Exit(cmdLoopCounts())
	case "selftest":
		os.Exit(cmdSelftest(os.Args[2:]))
	default:
		fmt.Fprintln(os.Stderr, "unknown command", os.Args[1])
		os.Exit(2)
	}
}

func repoDir() string {
	if d := os.Getenv("GOVC_REPO"); d != "" {
		return d
	}
	return "/repo"
}

func verifDir() string {
	if d := os.Getenv("GOVC_VERIF"); d != "" {
		return d
	}
	return "/verif"
}

// cmdVerify is the developer entry point: verify the named functions and
// print every obligation.
func cmdVerify(args []string) {
	if len(args) < 2 {
		fmt.Fprintln(os.Stderr, "usage: govc verify <pkgpatterns,comma> <funckey>...")
		os.Exit(2)
	}
	eng := newEngine(repoDir())
	eng.sequential = os.Getenv("GOVC_SEQUENTIAL") != ""
	eng.noContentIDExt = os.Getenv("GOVC_NO_CONTENT_ID_EXT") != ""
	if err := eng.load(strings.Split(args[0], ",")...); err != nil {
		fmt.Fprintln(os.Stderr, "TOOL-ERROR:", err)
		os.Exit(2)
	}
	if err := eng.loadSpecs(verifDir() + "/specs"); err != nil {
		fmt.Fprintln(os.Stderr, "TOOL-ERROR:", err)
		os.Exit(2)
	}
	var results []*FuncResult
	for _, k := range args[1:] {
		if strings.HasPrefix(k, "lemma:") {
			results = append(results, eng.verifyLemma(strings.TrimPrefix(k, "lemma:")))
			continue
		}
		if !strings.HasPrefix(k, modulePrefix) {
			k = modulePrefix + "/" + k
		}
		results = append(results, eng.verifyFunction(k, nil))
	}
	discharge(results, dischargeOpts{timeoutS: 10, workers: 16, keepDir: verifDir() + "/out/smt"})
	for _, r := range results {
		fmt.Printf("== %s (%d instrs, %.2fs gen)\n", r.Key, r.Instrs, r.Seconds)
		if r.Unsupported != "" {
			fmt.Println("   UNSUPPORTED:", r.Unsupported)
		}
		sort.SliceStable(r.Obligations, func(i, j int) bool { return false })
		for _, o := range r.Obligations {
			fmt.Printf("   %-7s %-8s %6.2fs %s  [%s:%d]\n", o.Result.Status, o.Result.Solver, o.Result.Seconds, o.Name, shortFile(o.Pos.Filename), o.Pos.Line)
		}
		for _, o := range r.Cover {
			fmt.Printf("   cover:%-5s %6.2fs %s\n", o.Result.Status, o.Result.Seconds, o.Name)
		}
	}
}

func shortFile(f string) string {
	if i := strings.LastIndex(f, "/"); i >= 0 {
		return f[i+1:]
	}
	return f
}


// cmdSurvey lists, for a property, every function it would verify and
// whether generation succeeds (development aid).
func cmdSurvey(args []string) int {
	prop := properties()[args[0]]
	eng := newEngine(repoDir())
	eng.requireVariants = prop.RequireVars
	eng.onlySafe = prop.OnlySafe
	if err := eng.load(prop.Patterns...); err != nil {
		fmt.Println("TOOL-ERROR:", err)
		return 2
	}
	if err := eng.loadSpecs(verifDir() + "/specs"); err != nil {
		fmt.Println("TOOL-ERROR:", err)
		return 2
	}
	funcs := prop.Funcs
	if prop.Closure != nil {
		funcs = append(funcs, prop.Closure(eng)...)
	}
	var results []*FuncResult
	for _, k := range funcs {
		r := eng.verifyFunction(modulePrefix+"/"+k, nil)
		results = append(results, r)
	}
	if len(args) > 1 && args[1] == "solve" {
		discharge(results, dischargeOpts{timeoutS: 10, workers: 12})
	}
	for _, r := range results {
		status := "ok"
		if r.Unsupported != "" {
			status = "UNSUPPORTED: " + firstLine(r.Unsupported)
		}
		bad := 0
		for _, o := range r.Obligations {
			if o.Result.Status != "" && o.Result.Status != "unsat" && prop.Kinds[o.Kind] {
				bad++
				fmt.Printf("      FAIL %s %s [%s:%d]\n", o.Result.Status, o.Name, shortFile(o.Pos.Filename), o.Pos.Line)
			}
		}
		fmt.Printf("%-60s %3d obl %2d bad  %s\n", shortKey(r.Key), len(r.Obligations), bad, status)
	}
	return 0
}

// cmdLoopCounts prints, for every contract with loop clauses, the number of
// loops its function has now (used to record "loops N" in the contracts).
func cmdLoopCounts() int {
	eng := newEngine(repoDir())
	if err := eng.load("./..."); err != nil {
		fmt.Fprintln(os.Stderr, "TOOL-ERROR:", err)
		return 2
	}
	var keys []string
	for k, f := range eng.contracts.Funcs {
		if len(f.Loops) > 0 && !f.Extern {
			keys = append(keys, k)
		}
	}
	sort.Strings(keys)
	for _, k := range keys {
		fn := eng.lookupFunc(k)
		if fn == nil {
			fmt.Printf("%s ? %s\n", k, eng.contracts.Funcs[k].File)
			continue
		}
		fmt.Printf("%s %d %s recorded=%d\n", k, len(analyzeLoops(fn).ordered), eng.contracts.Funcs[k].File, eng.contracts.Funcs[k].LoopCount)
	}
	return 0
}
