package main

// Symbolic execution of go/ssa (naive form) with state merging at joins and
// loops cut at their invariants.

import (
	"fmt"
	"go/constant"
	"go/token"
	"go/types"
	"math/big"
	"sort"
	"strings"

	"golang.org/x/tools/go/ssa"
)

type deferRec struct {
	instr *ssa.Defer
	flag  *Cell
	args  []*Cell // saved argument values (evaluated at the defer statement)
	fnval *Cell
}

type Frame struct {
	fx      *FnCtx
	fn      *ssa.Function
	regs    map[ssa.Value]Val
	cells   map[*ssa.Alloc]*Cell
	iters   map[*ssa.Range]*Cell
	defers  []*deferRec
	spec    *FuncSpec
	path    string
	entry   *State
	params  map[string]Val
	tracked map[*ssa.Alloc]bool
	loops   *loopInfo
	depth   int
	isRoot  bool
	recvSub map[string]types.Type
	edgeConds map[[2]int]T
	cur     ssa.Instruction // the instruction being executed
	heads   map[*ssa.BasicBlock]*loopHead
	rets    *[]retPoint // the return points collected so far (a recovered panic adds one)
}

// innermostHead: the state at the head of the innermost loop around the
// instruction being executed (for prev() outside loop clauses).
func (fr *Frame) innermostHead() *State {
	if fr.cur == nil || fr.cur.Block() == nil || fr.loops == nil || fr.heads == nil || fr.cur.Parent() != fr.fn {
		return nil
	}
	var best *loop
	for _, l := range fr.loops.ordered {
		if l.body[fr.cur.Block()] && (best == nil || len(l.body) < len(best.body)) {
			best = l
		}
	}
	if best == nil {
		return nil
	}
	if h := fr.heads[best.header]; h != nil {
		return h.st
	}
	return nil
}

type retPoint struct {
	st   *State
	vals []Val
}

func (fx *FnCtx) newCell(name string, sh *Shape, a *ssa.Alloc) *Cell {
	fx.ncell++
	return &Cell{name: name, sh: sh, alloc: a, id: fx.ncell}
}

// ---------------------------------------------------------------------------
// Loop structure

type loop struct {
	header  *ssa.BasicBlock
	body    map[*ssa.BasicBlock]bool
	ordinal int
}

type loopInfo struct {
	order   []*ssa.BasicBlock
	loops   map[*ssa.BasicBlock]*loop // by header
	isBack  map[[2]int]bool            // (from,to) block indices
	ordered []*loop
}

func analyzeLoops(fn *ssa.Function) *loopInfo {
	li := &loopInfo{loops: map[*ssa.BasicBlock]*loop{}, isBack: map[[2]int]bool{}}
	for _, b := range fn.Blocks {
		for _, s := range b.Succs {
			if s.Dominates(b) {
				li.isBack[[2]int{b.Index, s.Index}] = true
				l := li.loops[s]
				if l == nil {
					l = &loop{header: s, body: map[*ssa.BasicBlock]bool{s: true}}
					li.loops[s] = l
				}
				// natural loop: nodes reaching b without passing s
				stack := []*ssa.BasicBlock{b}
				for len(stack) > 0 {
					x := stack[len(stack)-1]
					stack = stack[:len(stack)-1]
					if l.body[x] {
						continue
					}
					l.body[x] = true
					stack = append(stack, x.Preds...)
				}
			}
		}
	}
	for _, l := range li.loops {
		li.ordered = append(li.ordered, l)
	}
	// ordinal by source position of the header's first positioned instruction,
	// falling back to block index
	sort.Slice(li.ordered, func(i, j int) bool {
		pi, pj := loopPos(li.ordered[i]), loopPos(li.ordered[j])
		if pi != pj {
			return pi < pj
		}
		return li.ordered[i].header.Index < li.ordered[j].header.Index
	})
	for i, l := range li.ordered {
		l.ordinal = i
	}
	// topological order ignoring back edges (reverse postorder)
	seen := map[*ssa.BasicBlock]bool{}
	var post []*ssa.BasicBlock
	var dfs func(b *ssa.BasicBlock)
	dfs = func(b *ssa.BasicBlock) {
		seen[b] = true
		for _, s := range b.Succs {
			if li.isBack[[2]int{b.Index, s.Index}] || seen[s] {
				continue
			}
			dfs(s)
		}
		post = append(post, b)
	}
	if len(fn.Blocks) > 0 {
		dfs(fn.Blocks[0])
	}
	for i := len(post) - 1; i >= 0; i-- {
		li.order = append(li.order, post[i])
	}
	return li
}

func loopPos(l *loop) token.Pos {
	best := token.Pos(0)
	for b := range l.body {
		for _, in := range b.Instrs {
			if p := in.Pos(); p.IsValid() && (best == 0 || p < best) {
				best = p
			}
		}
	}
	return best
}

// ---------------------------------------------------------------------------
// Tracked allocations

func computeTracked(fn *ssa.Function) map[*ssa.Alloc]bool {
	out := map[*ssa.Alloc]bool{}
	for _, b := range fn.Blocks {
		for _, in := range b.Instrs {
			if a, ok := in.(*ssa.Alloc); ok {
				out[a] = addrOnlyUses(a, a, 0) && !hasEmbeddedField(a)
			}
		}
	}
	return out
}

var embeddedTable map[string]bool

func hasEmbeddedField(a *ssa.Alloc) bool {
	pt, ok := a.Type().Underlying().(*types.Pointer)
	if !ok || len(embeddedTable) == 0 {
		return false
	}
	sh := shapeOf(pt.Elem())
	if sh.kind != KStruct {
		return false
	}
	for i := range sh.fields {
		if embeddedTable[embeddedKey(sh, i)] {
			return true
		}
	}
	return false
}

// addrOnlyUses reports whether every use of the address value v (derived from
// alloc a) keeps the pointer out of memory.
func addrOnlyUses(a *ssa.Alloc, v ssa.Value, depth int) bool {
	if depth > 6 {
		return false
	}
	refs := v.Referrers()
	if refs == nil {
		return false
	}
	for _, r := range *refs {
		switch u := r.(type) {
		case *ssa.UnOp:
			if u.Op != token.MUL {
				return false
			}
		case *ssa.Store:
			if u.Val == v {
				return false
			}
		case *ssa.FieldAddr:
			if !addrOnlyUses(a, u, depth+1) {
				return false
			}
		case *ssa.IndexAddr:
			if u.X != v || !addrOnlyUses(a, u, depth+1) {
				return false
			}
		case *ssa.DebugRef:
		case *ssa.Call:
			if u.Call.Value == v {
				return false
			}
		case *ssa.Defer:
			if u.Call.Value == v {
				return false
			}
		case *ssa.MakeClosure:
		default:
			return false
		}
	}
	return true
}

// ---------------------------------------------------------------------------
// Function execution

const maxInlineDepth = 12

// execFunction symbolically executes fn from st with the given arguments and
// returns the merged return state and result values.
func (fx *FnCtx) execFunction(fn *ssa.Function, args []Val, bindings []Val, st *State, path string, depth int, isRoot bool) (*State, []Val) {
	if len(fn.Blocks) == 0 {
		unsupp("function %s has no body", fn)
	}
	if depth > maxInlineDepth {
		unsupp("inline depth exceeded at %s", fn)
	}
	fr := &Frame{fx: fx, fn: fn, regs: map[ssa.Value]Val{}, cells: map[*ssa.Alloc]*Cell{}, iters: map[*ssa.Range]*Cell{},
		path: path, params: map[string]Val{}, depth: depth, isRoot: isRoot, edgeConds: map[[2]int]T{}}
	fr.spec = fx.eng.specFor(fn)
	if isRoot && fx.rootSpec != nil {
		fr.spec = fx.rootSpec
	}
	if isRoot {
		fx.rootFrame = fr
	}
	fr.tracked = computeTracked(fn)
	fr.loops = analyzeLoops(fn)
	for i, p := range fn.Params {
		if i >= len(args) {
			unsupp("argument count mismatch calling %s", fn)
		}
		fr.regs[p] = args[i]
		fr.params[p.Name()] = args[i]
	}
	for i, fv := range fn.FreeVars {
		if i >= len(bindings) {
			unsupp("missing closure bindings for %s", fn)
		}
		fr.regs[fv] = bindings[i]
	}
	fr.entry = st.clone()

	ins := map[*ssa.BasicBlock][]edgeState{}
	ins[fn.Blocks[0]] = []edgeState{{cond: st.guard, st: st}}
	var rets []retPoint
	fr.rets = &rets
	fx.frameStack = append(fx.frameStack, fr)
	defer func() { fx.frameStack = fx.frameStack[:len(fx.frameStack)-1] }()
	heads := map[*ssa.BasicBlock]*loopHead{}
	fr.heads = heads
	// loop contracts are keyed by ordinal: if the function's loop structure
	// is not the one they were written for, they would be applied to the
	// wrong loops - the proof then says nothing about this code (a function
	// without any loop is still decided exactly: nothing is cut)
	if isRoot && fr.spec != nil && len(fr.loops.ordered) == 0 && (fr.spec.LoopCount > 0 || len(fr.spec.Loops) > 0) {
		// ... unless its loops have merely moved into a helper that is
		// inlined below: then they run without the invariants written for them
		fx.loopsExpected = true
	}
	if !isRoot && fx.loopsExpected && len(fr.loops.ordered) > 0 {
		fx.loopsExpected = false
		fx.bindErrors = append(fx.bindErrors, fmt.Sprintf("%s: the loops the function's loop contracts were written for have moved into the helper %s", path, fn.Name()))
	}
	if isRoot && fr.spec != nil && len(fr.loops.ordered) > 0 {
		actual := len(fr.loops.ordered)
		bad := fr.spec.LoopCount > 0 && fr.spec.LoopCount != actual
		for ord := range fr.spec.Loops {
			if ord >= actual {
				bad = true
			}
		}
		if bad {
			fx.bindErrors = append(fx.bindErrors, fmt.Sprintf("%s: the function has %d loop(s), its loop contracts were written for a different loop structure", fr.path, actual))
		}
	}

	for _, b := range fr.loops.order {
		cur := fx.merge(fmt.Sprintf("b%d", b.Index), ins[b])
		if l := fr.loops.loops[b]; l != nil {
			cur = fr.enterLoop(l, cur, heads)
		}
		if cur.guard == "false" {
			continue
		}
		fr.execBlock(b, cur, ins, &rets, heads)
	}
	if isRoot {
		fx.rootRets = rets
	}
	// merge return points
	if len(rets) == 0 {
		dead := st.clone()
		dead.guard = "false"
		var zs []Val
		res := fn.Signature.Results()
		for i := 0; i < res.Len(); i++ {
			zs = append(zs, zeroVal(shapeOf(res.At(i).Type())))
		}
		return dead, zs
	}
	var es []edgeState
	for _, r := range rets {
		es = append(es, edgeState{cond: r.st.guard, st: r.st})
	}
	out := fx.merge("ret", es)
	nres := len(rets[0].vals)
	vals := make([]Val, nres)
	conds := make([]T, len(rets))
	for i, r := range rets {
		conds[i] = r.st.guard
	}
	for k := 0; k < nres; k++ {
		var vs []Val
		for _, r := range rets {
			vs = append(vs, r.vals[k])
		}
		if len(vs) == 1 {
			vals[k] = vs[0]
		} else {
			vals[k] = fx.mergeVals("res", conds, vs)
		}
	}
	return out, vals
}

type rangeIdx struct {
	cell  *ssa.Alloc
	bound ssa.Value
}

// rangeIndexInfo recognises the "rangeindex.loop" shape produced by go/ssa
// for range over slices, arrays and integers: header increments the hidden
// index cell and compares it with a bound computed before the loop.
func (fr *Frame) rangeIndexInfo(l *loop) *rangeIdx {
	if l.header.Comment != "rangeindex.loop" {
		return nil
	}
	var ri rangeIdx
	for _, in := range l.header.Instrs {
		switch x := in.(type) {
		case *ssa.Store:
			if a, ok := x.Addr.(*ssa.Alloc); ok && a.Comment == "rangeindex" {
				ri.cell = a
			}
		case *ssa.BinOp:
			if x.Op == token.LSS {
				ri.bound = x.Y
			}
		}
	}
	if ri.cell == nil || ri.bound == nil {
		return nil
	}
	// the bound must be defined outside the loop
	if in, ok := ri.bound.(ssa.Instruction); ok && l.body[in.Block()] {
		return nil
	}
	return &ri
}

func (fr *Frame) boundTerm(ri *rangeIdx) T {
	return fr.val(ri.bound).t()
}

type loopHead struct {
	rangeIdx *rangeIdx
	l        *loop
	st       *State // state right after havoc + assume (for variant)
	variant  T
	hasVar   bool
	spec     *LoopSpec
	preState *State
	frameHps []string // heaps under the automatic frame invariant
}

// enterLoop checks the invariant on entry, havocs what the loop modifies and
// assumes the invariant.
func (fr *Frame) enterLoop(l *loop, in *State, heads map[*ssa.BasicBlock]*loopHead) *State {
	fx := fr.fx
	var ls *LoopSpec
	if fr.spec != nil {
		ls = fr.spec.Loops[l.ordinal]
	}
	h := &loopHead{l: l, spec: ls, preState: in}
	heads[l.header] = h
	name := fmt.Sprintf("%s/loop%d", fr.path, l.ordinal)
	// the ghost logs the loop writes exist (empty) before it is entered
	fr.precreateGhosts(l, in)
	// establishment
	if ls != nil {
		for i, inv := range ls.Invariants {
			if !fx.eng.useClause(inv) {
				continue
			}
			t, ok := fr.loopClause(inv, in, name)
			if !ok {
				continue
			}
			if o := fx.oblige("invariant", fmt.Sprintf("%s/inv_established/%s", name, clauseName(inv, i)), in, t, l.header.Instrs[0].Pos(), inv.Src); len(inv.Using) > 0 {
				o.Using = inv.Using
			}
		}
	}
	if ri := fr.rangeIndexInfo(l); ri != nil {
		if c := fr.cells[ri.cell]; c != nil {
			if v, ok := in.cells[c]; ok {
				fx.oblige("invariant", name+"/inv_established/auto_rangeindex", in, and(le("(- 1)", v.t()), or(lt(v.t(), fr.boundTerm(ri)), eq(v.t(), "(- 1)"))), l.header.Instrs[0].Pos(), "-1 <= rangeindex < bound")
				fx.assume(in.guard, le("0", fr.boundTerm(ri)))
			}
		}
	}
	// automatic invariants: type ranges and iterator bounds are re-assumed below
	st := in.clone()
	mods := fr.loopMods(l)
	for _, a := range mods.allocs {
		c := fr.cells[a]
		if c == nil {
			continue // allocated inside the loop
		}
		if _, live := st.cells[c]; !live {
			continue
		}
		nv := freshVal(fx.decls, c.sh, c.name)
		old := st.cells[c]
		nv.ptr, nv.fns = old.ptr, old.fns
		if len(old.fns) > 0 || old.ptr != nil {
			// function values and cell pointers assigned in loops are not modelled
			if !fr.loopStoresSame(l, a) {
				unsupp("loop %s assigns function/pointer cell %s", name, c.name)
			}
		}
		st.cells[c] = nv
		fx.assume(st.guard, typeInvariant(nv))
	}
	for _, r := range mods.ranges {
		c := fr.iters[r]
		if c == nil {
			continue
		}
		nv := freshVal(fx.decls, c.sh, c.name)
		st.cells[c] = nv
		fr.assumeIterInvariant(st, r, nv)
	}
	// ghost call logs written inside the loop are unknown at its head
	if fr.precreateGhosts(l, st) {
		var names []string
		for n := range fx.ghost {
			names = append(names, n)
		}
		sort.Strings(names)
		for _, n := range names {
			c := fx.ghost[n]
			nv := freshVal(fx.decls, c.sh, "ghost")
			st.cells[c] = nv
			if c.sh.kind == KInt {
				fx.assume(st.guard, le("0", nv.t()))
			}
		}
	}
	if len(fx.bindErrors) > 0 {
		if fx.bindLoopHeaps == nil {
			fx.bindLoopHeaps = map[string]bool{}
		}
		for hn := range mods.heaps {
			fx.bindLoopHeaps[sanitize(hn)] = true
		}
	}
	for _, hn := range sortedKeys(mods.heaps) {
		so := mods.heaps[hn]
		fx.heapSorts[hn] = so
		// automatic frame invariant: the loop keeps the function's modifies
		// clause (established here, assumed below, re-proved at back edges)
		if fx.frame != nil {
			if cur, ok := in.heaps[hn]; ok {
				if c, skip := fx.frameCond(hn, cur, in.alloc, false); !skip {
					fx.oblige("frame", fmt.Sprintf("%s/inv_established/auto_frame/%s", name, sanitize(hn)), in, c, l.header.Instrs[0].Pos(), "loop keeps the modifies clause")
				}
			}
		}
		st.heaps[hn] = fx.decls.Fresh("hv", so)
	}
	if mods.allocates {
		na := fx.decls.Fresh("alloc", sInt)
		fx.assume(st.guard, le(st.alloc, na))
		st.alloc = na
	}
	if fx.frame != nil {
		for _, hn := range sortedKeys(mods.heaps) {
			if c, skip := fx.frameCond(hn, st.heaps[hn], st.alloc, true); !skip {
				fx.assume(st.guard, c)
				h.frameHps = append(h.frameHps, hn)
			}
		}
	}
	// references held in havocked cells were allocated earlier
	for _, a := range mods.allocs {
		if c := fr.cells[a]; c != nil {
			if v, live := st.cells[c]; live {
				fx.assumeRefsBelow(st, v)
			}
		}
	}
	h.st = st
	// (holds at every program point, so also for the unknown heaps here)
	fr.assumeUnpublished(l.header.Instrs[0], st)
	// automatic invariant of compiler-generated range-index loops:
	// -1 <= rangeindex < bound (the bound is a register defined before the loop)
	if ri := fr.rangeIndexInfo(l); ri != nil {
		h.rangeIdx = ri
		if c := fr.cells[ri.cell]; c != nil {
			if v, ok := st.cells[c]; ok {
				fx.assume(st.guard, and(le("(- 1)", v.t()), lt(v.t(), fr.boundTerm(ri))))
			}
		}
	}
	if ls != nil {
		for _, inv := range ls.Invariants {
			if !fx.eng.useClause(inv) {
				continue
			}
			inv := inv
			t := fx.hyp(func() T {
				t, _ := fr.loopClause(inv, st, name)
				return t
			})
			fx.labelled(inv.Label, func() { fx.assume(st.guard, t) })
		}
		for _, ap := range ls.HeadApplies {
			call := ap.E.(*ECall)
			env := fr.envFor(st, fr.entry, nil)
			fx.assume(st.guard, fx.eng.lemmaInstance(fx, call.Fn, call.Args, env))
		}
		for _, inv := range ls.Assumed {
			inv := inv
			fx.labelled(inv.Label, func() { fx.assume(st.guard, fx.hyp(func() T { return fr.evalClause(inv, st, nil, nil) })) })
			fx.noteAssumption("UNCHECKED loop-head assumption in " + name + ": " + inv.Label + " " + inv.Src)
		}
		if ls.Decreases != nil {
			if _, ok := fr.loopClause(Clause{Label: "decreases", Src: ls.Decreases.Src, E: &EBinary{Op: "==", L: ls.Decreases.E, R: ls.Decreases.E}}, st, name); ok {
				cv := fr.evalExprIn(ls.Decreases.E, st, nil, nil)
				h.variant = fx.define("variant", sInt, cv.asInt())
				h.hasVar = true
			}
		}
	}
	return st
}

// loopClause evaluates a loop clause; a clause that mentions a name the
// current code does not have (a restructured loop) is skipped and recorded:
// the check then answers UNDECIDED unless an obligation that does not depend
// on it fails.
func (fr *Frame) loopClause(c Clause, st *State, what string) (t T, ok bool) {
	defer func() {
		if r := recover(); r != nil {
			if u, isU := r.(unsupported); isU && strings.Contains(u.msg, "unknown name") {
				fr.fx.bindErrors = append(fr.fx.bindErrors, fmt.Sprintf("%s: loop clause %q no longer binds to the code (%s)", what, c.Label+" "+c.Src, u.msg))
				t, ok = "true", false
				return
			}
			panic(r)
		}
	}()
	return fr.evalClause(c, st, nil, nil), true
}

func clauseName(c Clause, i int) string {
	if c.Label != "" {
		return c.Label
	}
	return fmt.Sprintf("%d", i)
}

// backEdge checks invariant preservation and the variant.
func (fr *Frame) backEdge(h *loopHead, st *State, pos token.Pos) {
	fx := fr.fx
	name := fmt.Sprintf("%s/loop%d", fr.path, h.l.ordinal)
	if h.spec != nil {
		for _, ap := range h.spec.Applies {
			env := fr.envFor(st, fr.entry, nil)
			env.prev = h.st
			fx.eng.applyLemma(fx, ap, env, st, name+"/backedge")
		}
		for i, inv := range h.spec.Invariants {
			if !fx.eng.useClause(inv) {
				continue
			}
			t, ok := fr.loopClause(inv, st, name)
			if !ok {
				continue
			}
			if o := fx.oblige("invariant", fmt.Sprintf("%s/inv_preserved/%s", name, clauseName(inv, i)), st, t, pos, inv.Src); len(inv.Using) > 0 {
				o.Using = inv.Using
			}
		}
	}
	if h.spec != nil {
		for i, sc := range h.spec.Steps {
			if !fx.eng.useClause(sc) {
				continue
			}
			t, ok := fr.loopClause(sc, st, name)
			if !ok {
				continue
			}
			fx.oblige("invariant", fmt.Sprintf("%s/step/%s", name, clauseName(sc, i)), st, t, pos, sc.Src)
		}
	}
	if h.rangeIdx != nil {
		if c := fr.cells[h.rangeIdx.cell]; c != nil {
			if v, ok := st.cells[c]; ok {
				fx.oblige("invariant", name+"/inv_preserved/auto_rangeindex", st, and(le("(- 1)", v.t()), lt(v.t(), fr.boundTerm(h.rangeIdx))), pos, "-1 <= rangeindex < bound")
			}
		}
	}
	for _, hn := range h.frameHps {
		if cur, ok := st.heaps[hn]; ok {
			if c, skip := fx.frameCond(hn, cur, st.alloc, false); !skip {
				fx.oblige("frame", fmt.Sprintf("%s/inv_preserved/auto_frame/%s", name, sanitize(hn)), st, c, pos, "loop keeps the modifies clause")
			}
		}
	}
	if h.hasVar {
		cv := fr.evalExprIn(h.spec.Decreases.E, st, nil, nil)
		fx.oblige("variant", name+"/variant_decreases", st, and(le("0", h.variant), lt(cv.asInt(), h.variant)), pos, h.spec.Decreases.Src)
	} else if fr.fx.eng.requireVariants && !fr.loopIsRange(h.l) {
		fx.oblige("variant", name+"/variant_missing", st, "false", pos, "no decreases clause")
	}
}

func (fr *Frame) loopIsRange(l *loop) bool {
	if fr.rangeIndexInfo(l) != nil {
		return true
	}
	for _, in := range l.header.Instrs {
		if _, ok := in.(*ssa.Next); ok {
			return true
		}
	}
	return false
}

type loopModSet struct {
	allocs    []*ssa.Alloc
	ranges    []*ssa.Range
	heaps     map[string]string
	allocates bool
}

func (fr *Frame) loopMods(l *loop) loopModSet {
	var ms loopModSet
	as := map[*ssa.Alloc]bool{}
	rs := map[*ssa.Range]bool{}
	hs := map[string]string{}
	var blocks []*ssa.BasicBlock
	for b := range l.body {
		blocks = append(blocks, b)
	}
	sort.Slice(blocks, func(i, j int) bool { return blocks[i].Index < blocks[j].Index })
	for _, b := range blocks {
		for _, in := range b.Instrs {
			fr.fx.eng.instrEffects(fr.fn, in, fr.tracked, as, rs, hs, &ms.allocates, 0)
		}
	}
	for a := range as {
		ms.allocs = append(ms.allocs, a)
	}
	sort.SliceStable(ms.allocs, func(i, j int) bool {
		if ms.allocs[i].Pos() != ms.allocs[j].Pos() {
			return ms.allocs[i].Pos() < ms.allocs[j].Pos()
		}
		return ms.allocs[i].Name() < ms.allocs[j].Name()
	})
	for r := range rs {
		ms.ranges = append(ms.ranges, r)
	}
	sort.Slice(ms.ranges, func(i, j int) bool { return ms.ranges[i].Pos() < ms.ranges[j].Pos() })
	ms.heaps = hs
	return ms
}

func (fr *Frame) loopStoresSame(l *loop, a *ssa.Alloc) bool { return false }

// precreateGhosts makes sure the ghost log cells written by calls inside the
// loop exist before the loop is cut; it reports whether there are any.
func (fr *Frame) precreateGhosts(l *loop, st *State) bool {
	var blocks []*ssa.BasicBlock
	for b := range l.body {
		blocks = append(blocks, b)
	}
	// deterministic order: the names of the declared symbols depend on it
	sort.Slice(blocks, func(i, j int) bool { return blocks[i].Index < blocks[j].Index })
	return fr.precreateGhostsIn(blocks, fr.fn, st)
}

// havocGhostsForCall: a callee summarised by its contract may append to the
// ghost logs; what it appends is unknown beyond what the contract says, and
// earlier entries stay.
func (fr *Frame) havocGhostsForCall(callee *ssa.Function, st *State) {
	fx := fr.fx
	if callee == nil || len(callee.Blocks) == 0 {
		return
	}
	fx.touchedGhost = map[string]bool{}
	any := fr.precreateGhostsIn(callee.Blocks, callee, st)
	touched := fx.touchedGhost
	fx.touchedGhost = nil
	if !any {
		return
	}
	oldN := T("0")
	if c := fx.ghost["evn"]; c != nil {
		if v, ok := st.cells[c]; ok {
			oldN = v.t()
		}
	}
	var names []string
	for n := range touched {
		names = append(names, n)
	}
	sort.Strings(names)
	for _, n := range names {
		c := fx.ghost[n]
		if c == nil {
			continue
		}
		old, live := st.cells[c]
		nv := freshVal(fx.decls, c.sh, "ghostc")
		switch {
		case c.sh.kind == KInt:
			if live {
				fx.assume(st.guard, le(old.t(), nv.t()))
			} else {
				fx.assume(st.guard, le("0", nv.t()))
			}
		case c.sh.kind == KArr && live && (n == "evkind" || strings.HasPrefix(n, "evarg:") || strings.HasPrefix(n, "evres:")):
			for j := range nv.ts {
				fx.assume(st.guard, fmt.Sprintf("(forall ((k Int)) (! (=> (and (<= 0 k) (< k %s)) (= (select %s k) (select %s k))) :pattern ((select %s k))))", oldN, nv.ts[j], old.ts[j], nv.ts[j]))
			}
		}
		st.cells[c] = nv
	}
}

func (fr *Frame) precreateGhostsIn(blocks []*ssa.BasicBlock, infn *ssa.Function, st *State) bool {
	any := false
	seen := map[*ssa.Function]bool{}
	var scan func(instrs []ssa.Instruction, fn *ssa.Function, depth int)
	scan = func(instrs []ssa.Instruction, fn *ssa.Function, depth int) {
		for _, in := range instrs {
			var cc *ssa.CallCommon
			switch x := in.(type) {
			case *ssa.Call:
				cc = &x.Call
			case *ssa.Defer:
				cc = &x.Call
			default:
				continue
			}
			if fr.precreateFor(cc, st) {
				any = true
			}
			if depth >= 4 {
				continue
			}
			// callees whose bodies will be inlined, and every closure made by
			// the enclosing function (it may be the target of a dynamic call)
			var targets []*ssa.Function
			if callee := cc.StaticCallee(); callee != nil && len(callee.Blocks) > 0 {
				// bodies that are inlined, and bodies summarised by a contract
				// (the contract may speak about the log entries they append)
				if sp := fr.fx.eng.specFor(callee); sp == nil || sp.Inline || (!sp.Extern && !sp.Pure && !sp.Trusted) {
					targets = append(targets, callee)
				}
			} else if !cc.IsInvoke() {
				for _, b := range fn.Blocks {
					for _, i2 := range b.Instrs {
						if mc, ok := i2.(*ssa.MakeClosure); ok {
							targets = append(targets, mc.Fn.(*ssa.Function))
						}
					}
				}
			}
			for _, t := range targets {
				if seen[t] {
					continue
				}
				seen[t] = true
				for _, b := range t.Blocks {
					scan(b.Instrs, t, depth+1)
				}
			}
		}
	}
	for _, b := range blocks {
		scan(b.Instrs, infn, 0)
	}
	return any
}

// precreateFor creates the ghost log cells a call may write.
func (fr *Frame) precreateFor(cc *ssa.CallCommon, st *State) bool {
	fx := fr.fx
	intSh := shapeOf(types.Typ[types.Int])
	if cc.IsInvoke() {
		fx.ghostCell(st, "evn", intSh, mkInt(intSh, "0"))
		ksh := &Shape{kind: KArr, elem: intSh, n: -1, key: "[ev]kind"}
		fx.ghostCell(st, "evkind", ksh, freshVal(fx.decls, ksh, "evkind0"))
		iname := ""
		if recvT := cc.Method.Type().(*types.Signature).Recv(); recvT != nil {
			if n, ok := recvT.Type().(*types.Named); ok {
				if n.Obj().Pkg() != nil {
					iname = n.Obj().Pkg().Path() + "." + n.Obj().Name()
				} else {
					iname = n.Obj().Name()
				}
			}
		}
		name := iname + "." + cc.Method.Name()
		all := append([]ssa.Value{cc.Value}, cc.Args...)
		for i, a := range all {
			ash := &Shape{kind: KArr, elem: shapeOf(a.Type()), n: -1}
			ash.key = "[ev]" + ash.elem.key
			fx.ghostCell(st, fmt.Sprintf("evarg:%s:%d", name, i), ash, freshVal(fx.decls, ash, "evargs0"))
			fx.ghostCell(st, fmt.Sprintf("arg:%s:%d", name, i), ash.elem, freshVal(fx.decls, ash.elem, "arg0"))
		}
		res := cc.Method.Type().(*types.Signature).Results()
		for i := 0; i < res.Len(); i++ {
			ash := &Shape{kind: KArr, elem: shapeOf(res.At(i).Type()), n: -1}
			ash.key = "[ev]" + ash.elem.key
			fx.ghostCell(st, fmt.Sprintf("evres:%s:%d", name, i), ash, freshVal(fx.decls, ash, "evress0"))
		}
		fx.ghostCell(st, "calls:"+name, intSh, mkInt(intSh, "0"))
		return true
	}
	if callee := cc.StaticCallee(); callee != nil {
		sp := fx.eng.specFor(callee)
		if sp == nil || !sp.Logged {
			return false
		}
		fx.ghostCell(st, "evn", intSh, mkInt(intSh, "0"))
		ksh := &Shape{kind: KArr, elem: intSh, n: -1, key: "[ev]kind"}
		fx.ghostCell(st, "evkind", ksh, freshVal(fx.decls, ksh, "evkind0"))
		name := funcKey(callee)
		if i := strings.LastIndex(name, "/"); i >= 0 {
			name = name[i+1:]
		}
		for i, a := range cc.Args {
			ash := &Shape{kind: KArr, elem: shapeOf(a.Type()), n: -1}
			ash.key = "[ev]" + ash.elem.key
			fx.ghostCell(st, fmt.Sprintf("evarg:%s:%d", name, i), ash, freshVal(fx.decls, ash, "evargs0"))
			fx.ghostCell(st, fmt.Sprintf("arg:%s:%d", name, i), ash.elem, freshVal(fx.decls, ash.elem, "arg0"))
		}
		res := callee.Signature.Results()
		for i := 0; i < res.Len(); i++ {
			ash := &Shape{kind: KArr, elem: shapeOf(res.At(i).Type()), n: -1}
			ash.key = "[ev]" + ash.elem.key
			fx.ghostCell(st, fmt.Sprintf("evres:%s:%d", name, i), ash, freshVal(fx.decls, ash, "evress0"))
			fx.ghostCell(st, fmt.Sprintf("res:%s:%d", name, i), ash.elem, freshVal(fx.decls, ash.elem, "res0"))
		}
		fx.ghostCell(st, "calls:"+name, intSh, mkInt(intSh, "0"))
		return true
	}
	if _, isB := cc.Value.(*ssa.Builtin); isB {
		return false
	}
	sig := cc.Signature()
	fx.ghostCell(st, "cbcalls", intSh, mkInt(intSh, "0"))
	for i := 0; i < sig.Params().Len(); i++ {
		ash := &Shape{kind: KArr, elem: shapeOf(sig.Params().At(i).Type()), n: -1}
		ash.key = "[cb]" + ash.elem.key
		fx.ghostCell(st, fmt.Sprintf("cbarg:%d", i), ash, freshVal(fx.decls, ash, "cbargs0"))
	}
	if sig.Results().Len() == 1 {
		ash := &Shape{kind: KArr, elem: shapeOf(sig.Results().At(0).Type()), n: -1}
		ash.key = "[cb]" + ash.elem.key
		fx.ghostCell(st, "cbres", ash, freshVal(fx.decls, ash, "cbres0"))
	}
	return true
}

func (fr *Frame) assumeIterInvariant(st *State, r *ssa.Range, pos Val) {
	x := fr.regs[r.X]
	switch x.sh.kind {
	case KStr:
		fr.fx.assume(st.guard, and(le("0", pos.field(0).t()), le(pos.field(0).t(), x.strLen()), le("0", pos.field(1).t())))
	}
}

// ---------------------------------------------------------------------------
// Blocks and instructions

func (fr *Frame) execBlock(b *ssa.BasicBlock, st *State, ins map[*ssa.BasicBlock][]edgeState, rets *[]retPoint, heads map[*ssa.BasicBlock]*loopHead) {
	fx := fr.fx
	for _, in := range b.Instrs {
		switch x := in.(type) {
		case *ssa.If:
			c := fr.val(x.Cond).t()
			c = fx.defineBool("c", c)
			fr.edge(b, b.Succs[0], and(st.guard, c), st, ins, heads, x.Pos())
			fr.edge(b, b.Succs[1], and(st.guard, not(c)), st, ins, heads, x.Pos())
			return
		case *ssa.Jump:
			fr.edge(b, b.Succs[0], st.guard, st, ins, heads, x.Pos())
			return
		case *ssa.Return:
			var vs []Val
			for _, r := range x.Results {
				vs = append(vs, fr.val(r))
			}
			*rets = append(*rets, retPoint{st: st, vals: vs})
			return
		case *ssa.Panic:
			fr.doPanic(x, st)
			return
		default:
			fr.exec(in, st)
			if st.guard == "false" {
				return
			}
		}
	}
}

func (fr *Frame) edge(from, to *ssa.BasicBlock, cond T, st *State, ins map[*ssa.BasicBlock][]edgeState, heads map[*ssa.BasicBlock]*loopHead, pos token.Pos) {
	if cond == "false" {
		return
	}
	es := st.clone()
	es.guard = cond
	fr.edgeConds[[2]int{from.Index, to.Index}] = cond
	if fr.loops.isBack[[2]int{from.Index, to.Index}] {
		h := heads[to]
		if h == nil {
			unsupp("irreducible control flow in %s", fr.fn)
		}
		if !pos.IsValid() {
			pos = lastPos(from)
		}
		fr.backEdge(h, es, pos)
		return
	}
	ins[to] = append(ins[to], edgeState{cond: cond, st: es})
}

func lastPos(b *ssa.BasicBlock) token.Pos {
	for i := len(b.Instrs) - 1; i >= 0; i-- {
		if p := b.Instrs[i].Pos(); p.IsValid() {
			return p
		}
	}
	return token.NoPos
}

func (fr *Frame) doPanic(x *ssa.Panic, st *State) {
	fx := fr.fx
	name := fr.path + "/panic/unreachable#"
	spec := fr.spec
	if spec != nil && len(spec.PanicWhen) > 0 && fr.isRoot {
		// panics are allowed exactly under the documented condition
		var cs []T
		for _, c := range spec.PanicWhen {
			cs = append(cs, fr.evalClause(c, fr.entry, nil, nil))
		}
		fx.oblige("panic", fr.path+"/panic/only_when_documented#", st, or(cs...), x.Pos(), "panics when")
		return
	}
	if spec != nil && fr.isRoot && strings.HasPrefix(spec.Panics, "may") {
		fx.noteAssumption("explicit panic in " + fr.path + " accepted as documented behaviour: " + spec.Panics)
		return
	}
	fx.oblige("panic", name, st, "false", x.Pos(), "explicit panic")
}

// val returns the symbolic value of an SSA value.
func (fr *Frame) val(v ssa.Value) Val {
	if r, ok := fr.regs[v]; ok {
		return r
	}
	switch x := v.(type) {
	case *ssa.Const:
		return fr.constVal(x)
	case *ssa.Function:
		return Val{sh: shapeOf(x.Type()), ts: []T{num(int64(fr.fx.eng.funcID(x)))}, fns: []FuncAlt{{cond: "true", fn: x}}}
	case *ssa.Global:
		return fr.fx.globalPtr(x)
	case *ssa.Builtin:
		return Val{sh: &Shape{kind: KFunc, key: "builtin"}, ts: []T{"0"}, fns: []FuncAlt{{cond: "true", builtin: x.Name()}}}
	}
	unsupp("value %s (%T) used before definition in %s", v.Name(), v, fr.fn)
	return Val{}
}

func (fr *Frame) constVal(c *ssa.Const) Val {
	sh := shapeOf(c.Type())
	if c.Value == nil {
		return zeroVal(sh)
	}
	switch sh.kind {
	case KBool:
		if constant.BoolVal(c.Value) {
			return mkBool(sh, "true")
		}
		return mkBool(sh, "false")
	case KInt:
		iv := constant.ToInt(c.Value)
		b, ok := new(big.Int).SetString(iv.ExactString(), 10)
		if !ok {
			unsupp("non-integer constant %s", c)
		}
		return mkInt(sh, numBig(b))
	case KStr:
		s := constant.StringVal(c.Value)
		return fr.fx.strConst(sh, s)
	case KOpaque:
		// float constants etc.
		return mkInt(sh, fr.fx.decls.Fresh("constopaque", sInt))
	}
	unsupp("constant %s of shape %d", c, sh.kind)
	return Val{}
}

// strConst returns the value of a constant string.
func (fx *FnCtx) strConst(sh *Shape, s string) Val {
	if s == "" {
		return mkStr(sh, emptyArr, "0", "0")
	}
	arr, ok := fx.strConsts[s]
	if !ok {
		arr = fx.decls.Fresh("str", sArr)
		fx.strConsts[s] = arr
		var cs []T
		for i := 0; i < len(s); i++ {
			cs = append(cs, eq(sel(arr, num(int64(i))), num(int64(s[i]))))
		}
		fx.assumes = append(fx.assumes, and(cs...))
		fx.strConstVals[arr] = s
	}
	return mkStr(sh, arr, "0", num(int64(len(s))))
}

func (fx *FnCtx) globalPtr(g *ssa.Global) Val {
	sh := shapeOf(g.Type())
	id := fx.eng.globalID(g)
	// globals live in the heap at fixed references below the initial counter
	return Val{sh: sh, ts: []T{fmt.Sprintf("|G:%s|", sanitize(g.String()))}, ptr: nil, fns: nil}.withGlobalDecl(fx, id)
}

func (v Val) withGlobalDecl(fx *FnCtx, id int) Val {
	fx.decls.Raw(fmt.Sprintf("(declare-fun %s () Int)", v.ts[0]))
	fx.decls.Raw(fmt.Sprintf("(assert (= %s %d))", v.ts[0], id))
	return v
}

func (fr *Frame) exec(in ssa.Instruction, st *State) {
	fx := fr.fx
	fr.cur = in
	switch x := in.(type) {
	case *ssa.DebugRef:
	case *ssa.Alloc:
		fr.execAlloc(x, st)
	case *ssa.Store:
		p := fr.val(x.Addr)
		fr.storePtr(st, p, fr.val(x.Val), x.Pos())
		if fr.spec != nil && len(fr.spec.StoreChecks) > 0 {
			if a, ok := x.Addr.(*ssa.Alloc); ok {
				if _, isConst := x.Val.(*ssa.Const); !isConst {
					for i, c := range fr.spec.StoreChecks[a.Comment] {
						if !fx.eng.useClause(c) {
							continue
						}
						t := fr.evalClause(c, st, nil, nil)
						fx.oblige("assert", fmt.Sprintf("%s/check_at_store/%s/%s#", fr.path, a.Comment, clauseName(c, i)), st, t, x.Pos(), c.Src)
					}
				}
			}
		}
	case *ssa.UnOp:
		fr.execUnOp(x, st)
	case *ssa.BinOp:
		fr.regs[x] = fr.binop(x.Op, fr.val(x.X), fr.val(x.Y), shapeOf(x.Type()), st, x.Pos())
	case *ssa.Phi:
		// edges arrive in Preds order; conditions are the guards of the
		// predecessor edges recorded in fr.phiConds
		var vals []Val
		var conds []T
		for i, e := range x.Edges {
			pred := x.Block().Preds[i]
			c, ok := fr.edgeConds[[2]int{pred.Index, x.Block().Index}]
			if !ok {
				continue // edge never taken (dead predecessor)
			}
			vals = append(vals, fr.val(e))
			conds = append(conds, c)
		}
		if len(vals) == 0 {
			unsupp("phi without live predecessors")
		}
		if len(vals) == 1 {
			fr.regs[x] = vals[0]
		} else {
			fr.regs[x] = fx.mergeVals(x.Name(), conds, vals)
		}
	case *ssa.Call:
		res := fr.call(&x.Call, st, x, x.Pos())
		if res != nil {
			fr.regs[x] = *res
		}
	case *ssa.Extract:
		fr.regs[x] = fr.val(x.Tuple).field(x.Index)
	case *ssa.FieldAddr:
		p := fr.val(x.X)
		fr.regs[x] = fr.fieldAddr(st, p, x.Field, x.Pos())
	case *ssa.Field:
		fr.regs[x] = fr.val(x.X).field(x.Field)
	case *ssa.IndexAddr:
		fr.execIndexAddr(x, st)
	case *ssa.Index:
		fr.execIndex(x, st)
	case *ssa.Slice:
		fr.execSlice(x, st)
	case *ssa.Convert:
		fr.regs[x] = fr.convert(st, fr.val(x.X), x.X.Type(), x.Type(), x.Pos())
	case *ssa.ChangeType:
		v := fr.val(x.X)
		nv := v
		nv.sh = shapeOf(x.Type())
		fr.regs[x] = nv
	case *ssa.MultiConvert:
		fr.regs[x] = fr.convert(st, fr.val(x.X), x.X.Type(), x.Type(), x.Pos())
	case *ssa.ChangeInterface:
		v := fr.val(x.X)
		nv := v
		nv.sh = shapeOf(x.Type())
		fr.regs[x] = nv
	case *ssa.MakeInterface:
		fr.regs[x] = fr.makeInterface(st, fr.val(x.X), x.X.Type(), shapeOf(x.Type()))
	case *ssa.TypeAssert:
		fr.execTypeAssert(x, st)
	case *ssa.MakeClosure:
		fn := x.Fn.(*ssa.Function)
		var bs []Val
		for _, b := range x.Bindings {
			bs = append(bs, fr.val(b))
		}
		fr.regs[x] = Val{sh: shapeOf(x.Type()), ts: []T{num(int64(fx.eng.funcID(fn)))}, fns: []FuncAlt{{cond: "true", fn: fn, bindings: bs}}}
	case *ssa.MakeSlice:
		fr.execMakeSlice(x, st)
	case *ssa.MakeMap:
		fr.execMakeMap(x, st)
	case *ssa.MapUpdate:
		fr.execMapUpdate(x, st)
	case *ssa.Lookup:
		fr.execLookup(x, st)
	case *ssa.Range:
		fr.execRange(x, st)
	case *ssa.Next:
		fr.execNext(x, st)
	case *ssa.Defer:
		fr.execDefer(x, st)
	case *ssa.RunDefers:
		fr.execRunDefers(x, st)
	case *ssa.Go:
		fr.execGo(x, st)
	case *ssa.Select:
		fr.execSelect(x, st)
	case *ssa.MakeChan:
		// a channel is an opaque fresh reference
		r := fr.fx.newRef(st, "chan")
		fr.regs[x] = Val{sh: shapeOf(x.Type()), ts: []T{r}}
	case *ssa.Send:
		unsupp("channel operation %T in %s", in, fr.fn)
	case *ssa.SliceToArrayPointer:
		fr.execSliceToArrayPointer(x, st)
	default:
		unsupp("instruction %T (%s) in %s", in, in, fr.fn)
	}
}

// execSelect: any ready case may be chosen and what is received is
// arbitrary; sends are not modelled.
func (fr *Frame) execSelect(x *ssa.Select, st *State) {
	fx := fr.fx
	fx.noteAssumption("select picks any case; channel receives yield arbitrary values; other goroutines do not change the verified state while this one waits")
	intSh := shapeOf(types.Typ[types.Int])
	idx := fx.decls.Fresh("selidx", sInt)
	lo := "0"
	if !x.Blocking {
		lo = "(- 1)"
	}
	fx.assume(st.guard, and(le(lo, idx), lt(idx, num(int64(len(x.States))))))
	out := Val{sh: shapeOf(x.Type())}
	out.ts = append(out.ts, mkInt(intSh, idx).ts...)
	out.ts = append(out.ts, fx.decls.Fresh("selok", sBool))
	for _, s := range x.States {
		if s.Dir != types.RecvOnly {
			unsupp("select with a send case in %s", fr.fn)
		}
		ct := s.Chan.Type().Underlying().(*types.Chan)
		ev := freshVal(fx.decls, shapeOf(ct.Elem()), "selrecv")
		fx.assume(st.guard, typeInvariant(ev))
		fx.assumeRefsBelow(st, ev)
		out.ts = append(out.ts, ev.ts...)
	}
	fr.regs[x] = out
}

func (fr *Frame) execAlloc(x *ssa.Alloc, st *State) {
	fx := fr.fx
	elemT := x.Type().Underlying().(*types.Pointer).Elem()
	sh := shapeOf(elemT)
	psh := shapeOf(x.Type())
	if sh.kind == KUnit {
		c := fx.newCell(x.Comment, sh, x)
		fr.cells[x] = c
		fr.regs[x] = Val{sh: psh, ts: []T{num(int64(-c.id))}, ptr: &PtrInfo{cell: c, root: sh}}
		return
	}
	if fr.tracked[x] {
		c := fr.cells[x]
		if c == nil {
			c = fx.newCell(x.Comment, sh, x)
			fr.cells[x] = c
		}
		st.cells[c] = zeroVal(sh)
		fr.regs[x] = Val{sh: psh, ts: []T{num(int64(-c.id))}, ptr: &PtrInfo{cell: c, root: sh}}
		return
	}
	ref := fx.newRef(st, x.Comment)
	z := zeroVal(sh)
	fx.storeObjComps(st, sh, ref, 0, z.ts)
	fr.regs[x] = Val{sh: psh, ts: []T{ref}}
}

// execSliceToArrayPointer: (*[N]T)(s) panics unless len(s) >= N.  Only the
// value conversion [N]T(s) is modelled further - the pointer is used for
// nothing but loads - as a fresh array holding the first N elements (a
// pointer that is stored or written through would alias the slice's memory).
func (fr *Frame) execSliceToArrayPointer(x *ssa.SliceToArrayPointer, st *State) {
	fx := fr.fx
	sv := fr.val(x.X)
	psh := shapeOf(x.Type())
	ash := psh.elem
	if sv.sh.kind != KSlice || ash == nil || ash.kind != KArr || ash.n < 0 {
		unsupp("slice to array pointer conversion of %s", sv.sh.key)
	}
	fx.oblige("bounds", fr.path+"/bounds/slicetoarray#", st, le(num(ash.n), sv.slLen()), x.Pos(), "")
	if refs := x.Referrers(); refs != nil {
		for _, r := range *refs {
			switch u := r.(type) {
			case *ssa.DebugRef:
			case *ssa.UnOp:
				if u.Op != token.MUL {
					unsupp("slice to array pointer that is not only loaded from")
				}
			default:
				unsupp("slice to array pointer that is not only loaded from")
			}
		}
	}
	if ash.n > 64 {
		unsupp("slice to array conversion of %d elements", ash.n)
	}
	ref := fx.newRef(st, "s2a")
	ncomp := ash.elem.ncomp()
	var comps []T
	for c := 0; c < ncomp; c++ {
		back := fx.sliceBacking(st, sv.sh.elem, sv.slRef(), c)
		arr := zeroVal(ash).ts[c]
		for i := int64(0); i < ash.n; i++ {
			arr = store(arr, num(i), sel(back, add(sv.slOff(), num(i))))
		}
		comps = append(comps, fx.define("s2a", ash.sorts()[c], arr))
	}
	fx.storeObjComps(st, ash, ref, 0, comps)
	fr.regs[x] = Val{sh: psh, ts: []T{ref}}
}

func (fr *Frame) execUnOp(x *ssa.UnOp, st *State) {
	v := fr.val(x.X)
	sh := shapeOf(x.Type())
	switch x.Op {
	case token.MUL:
		fr.regs[x] = fr.loadPtr(st, v, x.Pos())
	case token.NOT:
		fr.regs[x] = mkBool(sh, not(v.t()))
	case token.SUB:
		ii, _ := intInfoOf(x.Type())
		fr.regs[x] = mkInt(sh, ii.wrap(app("-", v.t())))
	case token.XOR:
		ii, _ := intInfoOf(x.Type())
		if ii.signed {
			fr.regs[x] = mkInt(sh, sub(app("-", v.t()), "1"))
		} else {
			fr.regs[x] = mkInt(sh, sub(numBig(ii.max()), v.t()))
		}
	case token.ARROW:
		// a receive yields an arbitrary element (and an arbitrary ok): what
		// other goroutines send is not modelled, nor is blocking
		fx := fr.fx
		fx.noteAssumption("channel receives yield arbitrary values; other goroutines do not change the verified state while this one waits")
		ct, _ := x.X.Type().Underlying().(*types.Chan)
		if ct == nil {
			unsupp("receive from %s", x.X.Type())
		}
		ev := freshVal(fx.decls, shapeOf(ct.Elem()), "recv")
		fx.assume(st.guard, typeInvariant(ev))
		fx.assumeRefsBelow(st, ev)
		if x.CommaOk {
			okv := fx.decls.Fresh("recvok", sBool)
			z := zeroVal(ev.sh)
			res := iteVal(okv, ev, z)
			fr.regs[x] = Val{sh: shapeOf(x.Type()), ts: append(append([]T{}, res.ts...), okv)}
		} else {
			fr.regs[x] = ev
		}
	default:
		unsupp("unary %s", x.Op)
	}
}

// ---------------------------------------------------------------------------
// Pointers

func (fr *Frame) nilCheck(st *State, p Val, pos token.Pos, what string) {
	if p.ptr != nil && p.ptr.cell != nil {
		return
	}
	if strings.HasPrefix(p.ts[0], "|ref_") || strings.HasPrefix(p.ts[0], "|G:") {
		return // freshly allocated / global
	}
	fr.fx.oblige("nil", fr.path+"/nil/"+what+"#", st, not(eq(p.ts[0], "0")), pos, "")
}

// guardedCheck: a field declared "guarded T.f by mu" may only be read or
// written while the mutex field mu of the same object is held.  Objects
// allocated by the current function (constructors) are exempt.
func (fr *Frame) guardedCheck(st *State, p Val, pos token.Pos, what string) {
	fx := fr.fx
	if p.ptr == nil || p.ptr.cell != nil || len(p.ptr.path) == 0 || p.ptr.path[0].field < 0 || len(fx.eng.contracts.Guarded) == 0 {
		return
	}
	root := p.ptr.root
	if root.kind != KStruct {
		return
	}
	fkey := embeddedKey(root, p.ptr.path[0].field)
	mu, ok := fx.eng.contracts.Guarded[fkey]
	if !ok || strings.HasPrefix(p.ts[0], "|ref_") {
		return
	}
	for i, n := range root.fnames {
		if n != mu {
			continue
		}
		obj := fx.loadObj(st, root, p.ts[0])
		mv := obj.field(i)
		env := &Env{fx: fx, vars: map[string]CV{"m": cvOf(mv)}, st: st, bound: map[string]bool{}}
		e, _ := parseExpr("locked(m)")
		fx.oblige("guarded", fmt.Sprintf("%s/guarded/%s_%s#", fr.path, root.fnames[p.ptr.path[0].field], what), st, env.eval(e).asBool(), pos, "guarded "+fkey+" by "+mu)
		return
	}
	unsupp("guarded: no mutex field %s in %s", mu, root.key)
}

func navGet(v Val, path []PathElem) Val {
	for _, pe := range path {
		if pe.field >= 0 {
			v = v.field(pe.field)
		} else {
			v = v.arrayGet(pe.idx)
		}
	}
	return v
}

func navSet(v Val, path []PathElem, nv Val) Val {
	if len(path) == 0 {
		out := nv
		out.sh = v.sh
		return out
	}
	pe := path[0]
	if pe.field >= 0 {
		inner := navSet(v.field(pe.field), path[1:], nv)
		return v.withField(pe.field, inner)
	}
	inner := navSet(v.arrayGet(pe.idx), path[1:], nv)
	return v.arraySet(pe.idx, inner)
}

func (fr *Frame) loadPtr(st *State, p Val, pos token.Pos) Val {
	fx := fr.fx
	if p.sh.kind != KPtr {
		unsupp("load through non-pointer %s", p.sh.key)
	}
	if p.ptr != nil && p.ptr.cell != nil {
		cv, ok := st.cells[p.ptr.cell]
		if !ok {
			unsupp("read of dead cell %s", p.ptr.cell.name)
		}
		out := navGet(cv, p.ptr.path)
		// an element read out of an array held in a local cell is a value of
		// its type (array values carry no facts about their elements: the
		// parameter [4]byte of a function is 4 bytes)
		for _, pe := range p.ptr.path {
			if pe.field < 0 && out.sh.kind != KArr {
				fx.assume(st.guard, typeInvariant(out))
				break
			}
		}
		return out
	}
	fr.nilCheck(st, p, pos, "deref")
	fr.guardedCheck(st, p, pos, "read")
	var out Val
	if p.ptr != nil {
		root := fx.loadObj(st, p.ptr.root, p.ts[0])
		out = navGet(root, p.ptr.path)
	} else {
		out = fx.loadObj(st, p.sh.elem, p.ts[0])
	}
	fx.assumeLoaded(st, out)
	return out
}

// assumeLoaded adds the type invariant of a value read from the heap.
func (fx *FnCtx) assumeLoaded(st *State, v Val) {
	fx.assume(st.guard, typeInvariant(v))
	// references read from memory were allocated earlier
	var walk func(s *Shape, ts []T)
	walk = func(s *Shape, ts []T) {
		switch s.kind {
		case KPtr, KMap, KSlice:
			fx.assume(st.guard, le(ts[0], st.alloc))
		case KStruct, KTuple:
			o := 0
			for _, f := range s.fields {
				n := f.ncomp()
				walk(f, ts[o:o+n])
				o += n
			}
		}
	}
	walk(v.sh, v.ts)
}

func (fr *Frame) storePtr(st *State, p Val, v Val, pos token.Pos) {
	fx := fr.fx
	if p.sh.kind != KPtr {
		unsupp("store through non-pointer")
	}
	if v.ptr != nil && v.ptr.cell != nil && !(p.ptr != nil && p.ptr.cell != nil) {
		unsupp("pointer to local cell stored in heap memory")
	}
	if p.ptr != nil && p.ptr.cell != nil {
		c := p.ptr.cell
		cur, ok := st.cells[c]
		if !ok {
			cur = zeroVal(c.sh)
		}
		nv := navSet(cur, p.ptr.path, v)
		if len(p.ptr.path) == 0 {
			nv.ptr, nv.fns = v.ptr, v.fns
		}
		st.cells[c] = nv
		return
	}
	fr.nilCheck(st, p, pos, "store")
	fr.guardedCheck(st, p, pos, "write")
	if p.ptr != nil {
		root := fx.loadObj(st, p.ptr.root, p.ts[0])
		nroot := navSet(root, p.ptr.path, v)
		for c := range root.ts {
			if root.ts[c] != nroot.ts[c] {
				fx.storeObjComps(st, p.ptr.root, p.ts[0], c, nroot.ts[c:c+1])
			}
		}
		return
	}
	if len(v.ts) != p.sh.elem.ncomp() {
		unsupp("store shape mismatch %s <- %s", p.sh.elem.key, v.sh.key)
	}
	fx.storeObjComps(st, p.sh.elem, p.ts[0], 0, v.ts)
}

const embBase = "1099511627776" // 2^40: addresses of embedded, separately addressed fields

// embeddedKey names a struct field for the Embedded / Guarded tables.
func embeddedKey(sh *Shape, field int) string {
	n, ok := sh.typ.(*types.Named)
	if !ok || n.Obj().Pkg() == nil || field < 0 || field >= len(sh.fnames) {
		return "" // (opaque library types have no modelled fields)
	}
	return n.Obj().Pkg().Path() + "." + n.Obj().Name() + "." + sh.fnames[field]
}

func (fr *Frame) fieldAddr(st *State, p Val, field int, pos token.Pos) Val {
	esh := p.sh.elem
	if esh == nil || esh.kind != KStruct {
		unsupp("field address into %s", p.sh.key)
	}
	if fr.fx.eng.contracts.Embedded[embeddedKey(esh, field)] {
		if p.ptr != nil {
			unsupp("embedded field of a tracked or interior object")
		}
		fr.nilCheck(st, p, pos, "fieldaddr")
		fr.fx.noteAssumption("the address of " + embeddedKey(esh, field) + " is modelled as an object of its own, derived injectively from the enclosing object's reference (inverse: structPtr)")
		code := fr.fx.define("emb", sInt, fr.fx.embAddr(p.ts[0], field))
		return Val{sh: &Shape{kind: KPtr, elem: esh.fields[field], key: "*" + esh.fields[field].key}, ts: []T{code}}
	}
	out := Val{sh: &Shape{kind: KPtr, elem: esh.fields[field], key: "*" + esh.fields[field].key}, ts: p.ts}
	if p.ptr != nil {
		np := &PtrInfo{cell: p.ptr.cell, root: p.ptr.root, path: append(append([]PathElem{}, p.ptr.path...), PathElem{field: field})}
		out.ptr = np
		return out
	}
	fr.nilCheck(st, p, pos, "fieldaddr")
	out.ptr = &PtrInfo{root: esh, path: []PathElem{{field: field}}}
	return out
}

func (fr *Frame) execIndexAddr(x *ssa.IndexAddr, st *State) {
	fx := fr.fx
	base := fr.val(x.X)
	idx := fr.val(x.Index).t()
	rsh := shapeOf(x.Type())
	switch base.sh.kind {
	case KPtr: // pointer to array
		ash := base.sh.elem
		fx.oblige("bounds", fr.path+"/bounds/index#", st, and(le("0", idx), lt(idx, num(ash.n))), x.Pos(), "")
		out := Val{sh: rsh, ts: base.ts}
		if base.ptr != nil {
			out.ptr = &PtrInfo{cell: base.ptr.cell, root: base.ptr.root, path: append(append([]PathElem{}, base.ptr.path...), PathElem{field: -1, idx: idx})}
		} else {
			fr.nilCheck(st, base, x.Pos(), "indexaddr")
			out.ptr = &PtrInfo{root: ash, path: []PathElem{{field: -1, idx: idx}}}
		}
		fr.regs[x] = out
	case KSlice:
		fx.oblige("bounds", fr.path+"/bounds/index#", st, and(le("0", idx), lt(idx, base.slLen())), x.Pos(), "")
		ash := &Shape{kind: KArr, elem: base.sh.elem, n: -1, key: "[?]" + base.sh.elem.key}
		out := Val{sh: rsh, ts: []T{base.slRef()}}
		out.ptr = &PtrInfo{root: ash, path: []PathElem{{field: -1, idx: add(base.slOff(), idx)}}}
		fr.regs[x] = out
	default:
		unsupp("IndexAddr on %s", base.sh.key)
	}
}

func (fr *Frame) execIndex(x *ssa.Index, st *State) {
	fx := fr.fx
	base := fr.val(x.X)
	idx := fr.val(x.Index).t()
	switch base.sh.kind {
	case KStr:
		fx.oblige("bounds", fr.path+"/bounds/index#", st, and(le("0", idx), lt(idx, base.strLen())), x.Pos(), "")
		t := fx.define("b", sInt, sel(base.strArr(), add(base.strOff(), idx)))
		fx.assume(st.guard, and(le("0", t), le(t, "255")))
		fr.regs[x] = mkInt(shapeOf(x.Type()), t)
	case KArr:
		fx.oblige("bounds", fr.path+"/bounds/index#", st, and(le("0", idx), lt(idx, num(base.sh.n))), x.Pos(), "")
		v := base.arrayGet(idx)
		fx.assume(st.guard, typeInvariant(v))
		fr.regs[x] = v
	default:
		unsupp("Index on %s", base.sh.key)
	}
}

func (fr *Frame) execSlice(x *ssa.Slice, st *State) {
	fx := fr.fx
	base := fr.val(x.X)
	var lo, hi, max T
	if x.Low != nil {
		lo = fr.val(x.Low).t()
	} else {
		lo = "0"
	}
	switch base.sh.kind {
	case KStr:
		if x.High != nil {
			hi = fr.val(x.High).t()
		} else {
			hi = base.strLen()
		}
		fx.oblige("bounds", fr.path+"/bounds/slice#", st, and(le("0", lo), le(lo, hi), le(hi, base.strLen())), x.Pos(), "")
		fr.regs[x] = mkStr(shapeOf(x.Type()), base.strArr(), fx.define("off", sInt, add(base.strOff(), lo)), fx.define("len", sInt, sub(hi, lo)))
	case KSlice:
		if x.High != nil {
			hi = fr.val(x.High).t()
		} else {
			hi = base.slLen()
		}
		if x.Max != nil {
			max = fr.val(x.Max).t()
		} else {
			max = base.slCap()
		}
		fx.oblige("bounds", fr.path+"/bounds/slice#", st, and(le("0", lo), le(lo, hi), le(hi, max), le(max, base.slCap())), x.Pos(), "")
		fr.regs[x] = Val{sh: shapeOf(x.Type()), ts: []T{base.slRef(), fx.define("off", sInt, add(base.slOff(), lo)), fx.define("len", sInt, sub(hi, lo)), fx.define("cap", sInt, sub(max, lo))}}
	case KPtr:
		ash := base.sh.elem
		if ash.kind != KArr {
			unsupp("slice of pointer to %s", ash.key)
		}
		if base.ptr != nil {
			unsupp("slice of tracked/interior array")
		}
		n := num(ash.n)
		if x.High != nil {
			hi = fr.val(x.High).t()
		} else {
			hi = n
		}
		if x.Max != nil {
			max = fr.val(x.Max).t()
		} else {
			max = n
		}
		fr.nilCheck(st, base, x.Pos(), "slice")
		fx.oblige("bounds", fr.path+"/bounds/slice#", st, and(le("0", lo), le(lo, hi), le(hi, max), le(max, n)), x.Pos(), "")
		fr.regs[x] = Val{sh: shapeOf(x.Type()), ts: []T{base.ts[0], lo, sub(hi, lo), sub(max, lo)}}
	default:
		unsupp("Slice on %s", base.sh.key)
	}
}

// sliceElemsHeap returns the (Array Int E) backing array term of a slice for
// component c of its element shape.
func (fx *FnCtx) sliceBacking(st *State, elem *Shape, ref T, c int) T {
	ash := &Shape{kind: KArr, elem: elem, n: -1, key: "[?]" + elem.key}
	return fx.selHeap(fx.heapTerm(st, heapName(ash, c), heapSort(ash, c)), ref)
}

func (fr *Frame) execMakeSlice(x *ssa.MakeSlice, st *State) {
	fx := fr.fx
	sh := shapeOf(x.Type())
	n := fr.val(x.Len).t()
	c := fr.val(x.Cap).t()
	fx.oblige("bounds", fr.path+"/bounds/makeslice#", st, and(le("0", n), le(n, c)), x.Pos(), "")
	ref := fx.newRef(st, "mk")
	ash := &Shape{kind: KArr, elem: sh.elem, n: -1, key: "[?]" + sh.elem.key}
	z := zeroVal(ash)
	fx.storeObjComps(st, ash, ref, 0, z.ts)
	fr.regs[x] = Val{sh: sh, ts: []T{ref, "0", n, c}}
}

// ---------------------------------------------------------------------------
// Conversions

func (fr *Frame) convert(st *State, v Val, from, to types.Type, pos token.Pos) Val {
	fx := fr.fx
	tsh := shapeOf(to)
	fsh := v.sh
	switch {
	case fsh.kind == KInt && tsh.kind == KInt:
		fi, _ := intInfoOf(from)
		ti, ok := intInfoOf(to)
		if !ok {
			unsupp("conversion to %s", to)
		}
		if fi.min().Cmp(ti.min()) >= 0 && fi.max().Cmp(ti.max()) <= 0 {
			return mkInt(tsh, v.t())
		}
		return mkInt(tsh, fx.define("cv", sInt, ti.wrap(v.t())))
	case fsh.kind == KSlice && tsh.kind == KStr:
		arr := fx.sliceBacking(st, fsh.elem, v.slRef(), 0)
		arr = fx.define("sarr", sArr, arr)
		return mkStr(tsh, arr, v.slOff(), v.slLen())
	case fsh.kind == KStr && tsh.kind == KSlice:
		if ei, ok := intInfoOf(tsh.elem.typ); !ok || ei.bits != 8 {
			unsupp("string to %s conversion", tsh.key)
		}
		ref := fx.newRef(st, "s2b")
		ash := &Shape{kind: KArr, elem: tsh.elem, n: -1, key: "[?]" + tsh.elem.key}
		fx.storeObjComps(st, ash, ref, 0, []T{v.strArr()})
		return Val{sh: tsh, ts: []T{ref, v.strOff(), v.strLen(), v.strLen()}}
	case fsh.kind == KInt && tsh.kind == KStr:
		// string(rune): 1..4 bytes, ASCII exact
		arr := fx.decls.Fresh("runestr", sArr)
		n := fx.decls.Fresh("runelen", sInt)
		r := v.t()
		fx.assume(st.guard, and(le("1", n), le(n, "4"),
			imp(and(le("0", r), lt(r, "128")), and(eq(n, "1"), eq(sel(arr, "0"), r))),
			imp(not(and(le("0", r), lt(r, "128"))), le("128", sel(arr, "0"))),
			le("0", sel(arr, "0")), le(sel(arr, "0"), "255")))
		return mkStr(tsh, arr, "0", n)
	case fsh.kind == KPtr && tsh.kind == KInt:
		if v.ptr != nil {
			unsupp("conversion of an interior or cell pointer to unsafe.Pointer")
		}
		return mkInt(tsh, v.ts[0])
	case fsh.kind == KInt && tsh.kind == KPtr:
		fx.noteAssumption("unsafe.Pointer to pointer conversion keeps the reference (used only with structPtr)")
		return Val{sh: tsh, ts: []T{v.t()}}
	case fsh.kind == tsh.kind:
		nv := v
		nv.sh = tsh
		return nv
	case tsh.kind == KOpaque || fsh.kind == KOpaque:
		if len(v.ts) == 1 {
			return Val{sh: tsh, ts: []T{fx.decls.Fresh("conv", sInt)}}
		}
	}
	unsupp("conversion %s -> %s", from, to)
	return Val{}
}

func (fr *Frame) makeInterface(st *State, v Val, from types.Type, ish *Shape) Val {
	fx := fr.fx
	tid := num(int64(fx.eng.tids.id(from)))
	if v.ptr != nil && v.ptr.cell != nil {
		unsupp("pointer to local cell converted to interface")
	}
	if len(v.ts) == 1 && v.sh.kind != KBool {
		out := Val{sh: ish, ts: []T{tid, v.ts[0]}}
		out.fns = v.fns
		if v.ptr != nil {
			unsupp("interior pointer converted to interface")
		}
		return out
	}
	if v.sh.kind == KStr {
		if s, ok := fx.strConstVals[v.strArr()]; ok && v.strOff() == "0" {
			return Val{sh: ish, ts: []T{tid, fx.constBox(v.sh, s, st)}}
		}
	}
	ref := fx.newRef(st, "box")
	fx.storeObjComps(st, v.sh, ref, 0, v.ts)
	return Val{sh: ish, ts: []T{tid, ref}}
}

// constBox returns a reference that identifies a boxed constant string of a
// named type; the same constant always gets the same box so that interface
// comparisons with == behave as in Go.
func (fx *FnCtx) constBox(sh *Shape, s string, st *State) T {
	key := sh.key + "\x00" + s
	if b, ok := fx.constBoxes[key]; ok {
		return b
	}
	b := fmt.Sprintf("(- %d)", 1000+len(fx.constBoxes))
	fx.constBoxes[key] = b
	fx.constBoxInfo[b] = constBoxInfo{sh: sh, s: s}
	return b
}

type constBoxInfo struct {
	sh *Shape
	s  string
}

func (fr *Frame) unbox(st *State, iv Val, t types.Type) Val {
	fx := fr.fx
	sh := shapeOf(t)
	if len(sh.sorts()) == 1 && sh.kind != KBool {
		out := Val{sh: sh, ts: []T{iv.ifBox()}}
		if sh.kind == KFunc {
			out.fns = iv.fns
		}
		return out
	}
	v := fx.loadObj(st, sh, iv.ifBox())
	if sh.kind == KStr {
		// constant boxes
		for _, b := range sortedKeys(fx.constBoxInfo) {
			info := fx.constBoxInfo[b]
			if info.sh.key == sh.key {
				cv := fx.strConst(sh, info.s)
				v = iteVal(eq(iv.ifBox(), b), cv, v)
			}
		}
	}
	fx.assumeLoaded(st, v)
	return v
}

func (fr *Frame) execTypeAssert(x *ssa.TypeAssert, st *State) {
	fx := fr.fx
	iv := fr.val(x.X)
	var ok T
	var val Val
	if types.IsInterface(x.AssertedType) && types.AssignableTo(x.X.Type(), x.AssertedType) {
		// asserting a value to (a supertype of) its own static interface
		// type only checks for nil
		ok = not(eq(iv.ifTyp(), "0"))
		val = iv
		val.sh = shapeOf(x.AssertedType)
	} else if types.IsInterface(x.AssertedType) {
		ok = fr.implements(iv, x.AssertedType, st)
		val = iv
		val.sh = shapeOf(x.AssertedType)
	} else {
		ok = eq(iv.ifTyp(), num(int64(fx.eng.tids.id(x.AssertedType))))
		val = fr.unbox(st, iv, x.AssertedType)
		if _, isPtr := x.AssertedType.Underlying().(*types.Pointer); isPtr && !strings.HasPrefix(iv.ifBox(), "|ref_") {
			fx.assume(st.guard, imp(ok, not(eq(iv.ifBox(), "0"))))
			fx.noteAssumption("interface values do not hold typed nil pointers")
		}
	}
	if x.CommaOk {
		okv := mkBool(shapeOf(types.Typ[types.Bool]), fx.defineBool("taok", ok))
		z := zeroVal(val.sh)
		res := iteVal(ok, val, z)
		tsh := shapeOf(x.Type())
		fr.regs[x] = Val{sh: tsh, ts: append(append([]T{}, res.ts...), okv.ts...), fns: res.fns}
		return
	}
	fx.oblige("typeassert", fr.path+"/typeassert#", st, ok, x.Pos(), "")
	fr.regs[x] = val
}

// implements gives the condition under which the dynamic type of iv
// implements the interface type it: decided over the type ids known so far;
// unknown dynamic types leave the answer unconstrained.
func (fr *Frame) implements(iv Val, it types.Type, st *State) T {
	fx := fr.fx
	iface := it.Underlying().(*types.Interface)
	if iface.NumMethods() == 0 {
		return not(eq(iv.ifTyp(), "0"))
	}
	unknown := fx.decls.Fresh("impl", sBool)
	t := unknown
	for i := len(fx.eng.tids.typs) - 1; i >= 0; i-- {
		ty := fx.eng.tids.typs[i]
		id := num(int64(fx.eng.tids.id(ty)))
		if types.Implements(ty, iface) {
			t = ite(eq(iv.ifTyp(), id), "true", t)
		} else {
			t = ite(eq(iv.ifTyp(), id), "false", t)
		}
	}
	return and(not(eq(iv.ifTyp(), "0")), t)
}

// ---------------------------------------------------------------------------
// Binary operations

func (fr *Frame) binop(op token.Token, a, b Val, rsh *Shape, st *State, pos token.Pos) Val {
	fx := fr.fx
	switch op {
	case token.EQL, token.NEQ:
		e := fr.valEq(st, a, b)
		if op == token.NEQ {
			e = not(e)
		}
		return mkBool(rsh, fx.defineBool("eq", e))
	}
	switch a.sh.kind {
	case KInt:
		x, y := a.t(), b.t()
		switch op {
		case token.LSS:
			return mkBool(rsh, lt(x, y))
		case token.LEQ:
			return mkBool(rsh, le(x, y))
		case token.GTR:
			return mkBool(rsh, lt(y, x))
		case token.GEQ:
			return mkBool(rsh, le(y, x))
		}
		ii, ok := intInfoOf(rsh.typ)
		if !ok {
			unsupp("integer op on %s", rsh.key)
		}
		var r T
		switch op {
		case token.ADD:
			r = ii.wrapOnce(add(x, y))
		case token.SUB:
			r = ii.wrapOnce(sub(x, y))
		case token.MUL:
			r = ii.wrap(app("*", x, y))
		case token.QUO:
			fx.oblige("div", fr.path+"/div/nonzero#", st, not(eq(y, "0")), pos, "")
			r = ii.wrap(goDiv(x, y, ii.signed))
		case token.REM:
			fx.oblige("div", fr.path+"/div/nonzero#", st, not(eq(y, "0")), pos, "")
			r = goRem(x, y, ii.signed)
		case token.AND:
			r = bitAnd(fx, x, y, ii)
		case token.OR:
			r = bitOr(fx, x, y, ii)
		case token.XOR:
			r = bitXor(fx, x, y, ii)
		case token.AND_NOT:
			r = bitAnd(fx, x, bitNot(y, ii), ii)
		case token.SHL:
			r = shiftLeft(fx, x, y, ii)
		case token.SHR:
			r = shiftRight(fx, x, y, ii)
		default:
			unsupp("integer operator %s", op)
		}
		return mkInt(rsh, fx.define("i", sInt, r))
	case KBool:
		x, y := a.t(), b.t()
		switch op {
		case token.AND, token.LAND:
			return mkBool(rsh, and(x, y))
		case token.OR, token.LOR:
			return mkBool(rsh, or(x, y))
		}
	case KStr:
		switch op {
		case token.ADD:
			return fr.strConcat(st, a, b, rsh)
		case token.LSS, token.LEQ, token.GTR, token.GEQ:
			return mkBool(rsh, fx.decls.Fresh("strcmp", sBool))
		}
	case KOpaque:
		// ordered type parameters: an uninterpreted total order
		fx.declareOrd()
		switch op {
		case token.LSS:
			return mkBool(rsh, app("|ord.lt|", a.t(), b.t()))
		case token.GTR:
			return mkBool(rsh, app("|ord.lt|", b.t(), a.t()))
		case token.LEQ:
			return mkBool(rsh, not(app("|ord.lt|", b.t(), a.t())))
		case token.GEQ:
			return mkBool(rsh, not(app("|ord.lt|", a.t(), b.t())))
		}
	}
	unsupp("binary %s on %s", op, a.sh.key)
	return Val{}
}

// declareOrd declares the strict total order used for values of ordered
// type parameters (floats with NaN are outside the model).
func (fx *FnCtx) declareOrd() {
	fx.decls.Raw("(declare-fun |ord.lt| (Int Int) Bool)")
	fx.decls.Raw("(assert (forall ((a Int)) (not (|ord.lt| a a))))")
	fx.decls.Raw("(assert (forall ((a Int) (b Int) (c Int)) (! (=> (and (|ord.lt| a b) (|ord.lt| b c)) (|ord.lt| a c)) :pattern ((|ord.lt| a b) (|ord.lt| b c)))))")
	fx.decls.Raw("(assert (forall ((a Int) (b Int)) (! (or (|ord.lt| a b) (= a b) (|ord.lt| b a)) :pattern ((|ord.lt| a b)))))")
	fx.noteAssumption("values of cmp.Ordered type parameters are totally ordered by < (NaN excluded)")
}

func goDiv(x, y T, signed bool) T {
	if !signed {
		return app("div", x, y)
	}
	// truncated division
	q := app("div", app("abs", x), app("abs", y))
	return ite(eq(app(">=", x, "0"), app(">=", y, "0")), q, app("-", q))
}

func goRem(x, y T, signed bool) T {
	if !signed {
		if _, lit := litBig(y); !lit {
			// variable divisor: spell out the two cheapest cases
			return ite(lt(x, y), x, ite(lt(x, app("*", "2", y)), sub(x, y), app("mod", x, y)))
		}
		return app("mod", x, y)
	}
	m := app("mod", app("abs", x), app("abs", y))
	return ite(app(">=", x, "0"), m, app("-", m))
}

func bitNot(y T, ii intInfo) T {
	if ii.signed {
		return sub(app("-", y), "1")
	}
	return sub(numBig(ii.max()), y)
}

// constMask decomposes (x & c) for a constant c into div/mod arithmetic.
func constMask(x T, c *big.Int, bits uint) T {
	var parts []T
	i := uint(0)
	for i < bits {
		if c.Bit(int(i)) == 0 {
			i++
			continue
		}
		j := i
		for j < bits && c.Bit(int(j)) == 1 {
			j++
		}
		// bits i..j-1
		seg := app("mod", app("div", x, numBig(pow2(i))), numBig(pow2(j-i)))
		if i == 0 {
			seg = app("mod", x, numBig(pow2(j)))
		}
		if i > 0 {
			seg = app("*", seg, numBig(pow2(i)))
		}
		parts = append(parts, seg)
		i = j
	}
	if len(parts) == 0 {
		return "0"
	}
	if len(parts) == 1 {
		return parts[0]
	}
	return app("+", parts...)
}

func litBig(t T) (*big.Int, bool) {
	if _, ok := isNumLit(t); ok {
		b, ok2 := new(big.Int).SetString(t, 10)
		return b, ok2
	}
	if len(t) > 4 && strings.HasPrefix(t, "(- ") {
		if b, ok := new(big.Int).SetString(t[3:len(t)-1], 10); ok {
			return b.Neg(b), true
		}
	}
	b, ok := new(big.Int).SetString(t, 10)
	return b, ok && b.Sign() >= 0
}

func toUnsigned(x T, ii intInfo) T {
	if !ii.signed {
		return x
	}
	return ite(app(">=", x, "0"), x, add(x, numBig(pow2(ii.bits))))
}

func fromUnsigned(x T, ii intInfo) T {
	if !ii.signed {
		return x
	}
	return ite(lt(x, numBig(pow2(ii.bits-1))), x, sub(x, numBig(pow2(ii.bits))))
}

func bitAnd(fx *FnCtx, x, y T, ii intInfo) T {
	if c, ok := litBig(y); ok && c.Sign() >= 0 {
		return fromUnsigned(constMask(toUnsigned(x, ii), c, ii.bits), ii)
	}
	if c, ok := litBig(x); ok && c.Sign() >= 0 {
		return fromUnsigned(constMask(toUnsigned(y, ii), c, ii.bits), ii)
	}
	return bitwise(fx, "and", x, y, ii)
}

// bitOr: the common shapes (a zero operand, disjoint high/low nibbles) are
// spelled out before the general bit-by-bit expansion.
func bitOr(fx *FnCtx, x, y T, ii intInfo) T {
	gen := bitwise(fx, "or", x, y, ii)
	if ii.bits > 16 || ii.signed {
		return gen
	}
	lowx, lowy := app("mod", x, "16"), app("mod", y, "16")
	return ite(eq(y, "0"), x, ite(eq(x, "0"), y,
		ite(and(eq(lowx, "0"), lt(y, "16")), add(x, y),
			ite(and(eq(lowy, "0"), lt(x, "16")), add(x, y), gen))))
}
func bitXor(fx *FnCtx, x, y T, ii intInfo) T { return bitwise(fx, "xor", x, y, ii) }

// bitwise expands a bit operation on narrow integers bit by bit.
func bitwise(fx *FnCtx, op string, x, y T, ii intInfo) T {
	ux, uy := toUnsigned(x, ii), toUnsigned(y, ii)
	if ii.bits > 16 {
		// wide operands: 16-bit chunks, each expanded bit by bit (exact, but
		// heavy for the solvers; used by little code)
		chunk := intInfo{bits: 16}
		ux = fx.define("wu", sInt, ux)
		uy = fx.define("wu", sInt, uy)
		var sum []T
		for k := uint(0); k < ii.bits; k += 16 {
			cx := fx.define("wc", sInt, app("mod", app("div", ux, numBig(pow2(k))), "65536"))
			cy := fx.define("wc", sInt, app("mod", app("div", uy, numBig(pow2(k))), "65536"))
			sum = append(sum, app("*", bitwise(fx, op, cx, cy, chunk), numBig(pow2(k))))
		}
		return fromUnsigned(app("+", sum...), ii)
	}
	var parts []T
	for i := uint(0); i < ii.bits; i++ {
		bx := app("mod", app("div", ux, numBig(pow2(i))), "2")
		by := app("mod", app("div", uy, numBig(pow2(i))), "2")
		var bit T
		switch op {
		case "and":
			bit = ite(and(eq(bx, "1"), eq(by, "1")), "1", "0")
		case "or":
			bit = ite(or(eq(bx, "1"), eq(by, "1")), "1", "0")
		default:
			bit = ite(eq(bx, by), "0", "1")
		}
		parts = append(parts, app("*", bit, numBig(pow2(i))))
	}
	return fromUnsigned(app("+", parts...), ii)
}

func shiftLeft(fx *FnCtx, x, y T, ii intInfo) T {
	if c, ok := litBig(y); ok && c.IsInt64() && c.Int64() >= 0 {
		if uint(c.Int64()) >= ii.bits {
			return "0"
		}
		return ii.wrap(app("*", x, numBig(pow2(uint(c.Int64())))))
	}
	// variable shift: ite chain over 0..bits-1
	r := T("0")
	for i := int(ii.bits) - 1; i >= 0; i-- {
		r = ite(eq(y, num(int64(i))), ii.wrap(app("*", x, numBig(pow2(uint(i))))), r)
	}
	return r
}

func shiftRight(fx *FnCtx, x, y T, ii intInfo) T {
	if c, ok := litBig(y); ok && c.IsInt64() && c.Int64() >= 0 {
		if uint(c.Int64()) >= ii.bits {
			if ii.signed {
				return ite(app(">=", x, "0"), "0", "(- 1)")
			}
			return "0"
		}
		return app("div", x, numBig(pow2(uint(c.Int64()))))
	}
	var r T = "0"
	if ii.signed {
		r = ite(app(">=", x, "0"), "0", "(- 1)")
	}
	for i := int(ii.bits) - 1; i >= 0; i-- {
		r = ite(eq(y, num(int64(i))), app("div", x, numBig(pow2(uint(i)))), r)
	}
	return r
}

// valEq is Go's == on two values.
func (fr *Frame) valEq(st *State, a, b Val) T {
	fx := fr.fx
	switch a.sh.kind {
	case KStr:
		return fx.strEq(a, b)
	case KIface:
		if b.sh.kind != KIface {
			unsupp("mixed interface comparison")
		}
		// comparison with nil is exact; other comparisons are exact for
		// pointer-shaped and single-component dynamic values and for constant
		// boxes, otherwise undetermined when the boxes differ
		if b.ifTyp() == "0" {
			return eq(a.ifTyp(), "0")
		}
		if a.ifTyp() == "0" {
			return eq(b.ifTyp(), "0")
		}
		same := and(eq(a.ifTyp(), b.ifTyp()), eq(a.ifBox(), b.ifBox()))
		if fr.ifaceExact(a) || fr.ifaceExact(b) {
			return same
		}
		u := fx.decls.Fresh("ifeq", sBool)
		return or(same, and(eq(a.ifTyp(), b.ifTyp()), u))
	case KSlice, KMap, KFunc:
		// only comparable with nil
		return eq(a.ts[0], b.ts[0])
	case KPtr:
		if a.ptr != nil || b.ptr != nil {
			if a.ptr != nil && a.ptr.cell != nil && (b.ts[0] == "0") {
				return "false"
			}
			if b.ptr != nil && b.ptr.cell != nil && (a.ts[0] == "0") {
				return "false"
			}
			if b.ts[0] == "0" || a.ts[0] == "0" {
				return eq(a.ts[0], b.ts[0])
			}
			unsupp("comparison of interior pointers")
		}
		return eq(a.ts[0], b.ts[0])
	case KArr:
		if a.sh.n > 64 {
			unsupp("comparison of large arrays")
		}
		var cs []T
		for i := int64(0); i < a.sh.n; i++ {
			cs = append(cs, fr.valEq(st, a.arrayGet(num(i)), b.arrayGet(num(i))))
		}
		return and(cs...)
	case KStruct:
		var cs []T
		for i := range a.sh.fields {
			cs = append(cs, fr.valEq(st, a.field(i), b.field(i)))
		}
		return and(cs...)
	}
	if len(a.ts) != len(b.ts) {
		unsupp("comparison of %s and %s", a.sh.key, b.sh.key)
	}
	var cs []T
	for i := range a.ts {
		cs = append(cs, eq(a.ts[i], b.ts[i]))
	}
	return and(cs...)
}

func (fr *Frame) ifaceExact(v Val) bool {
	// a literal type id whose type is pointer-shaped or a constant box
	if strings.HasPrefix(v.ifBox(), "(- ") {
		return true
	}
	if id, ok := isNumLit(v.ifTyp()); ok && id > 0 && int(id) <= len(fr.fx.eng.tids.typs) {
		sh := shapeOf(fr.fx.eng.tids.typs[id-1])
		return len(sh.sorts()) == 1
	}
	return false
}

// strEq is content equality of two string values.
func (fx *FnCtx) strEq(a, b Val) T {
	if n, ok := isNumLit(b.strLen()); ok && n <= 64 {
		return fx.strEqConstLen(a, b, n)
	}
	if n, ok := isNumLit(a.strLen()); ok && n <= 64 {
		return fx.strEqConstLen(b, a, n)
	}
	if a.strArr() == b.strArr() && a.strOff() == b.strOff() {
		return eq(a.strLen(), b.strLen())
	}
	fx.decls.Raw(streqDef)
	return app("str.eq", a.strArr(), a.strOff(), a.strLen(), b.strArr(), b.strOff(), b.strLen())
}

const streqDef = `(define-fun str.eq ((a (Array Int Int)) (ao Int) (al Int) (b (Array Int Int)) (bo Int) (bl Int)) Bool
  (and (= al bl) (forall ((i Int)) (=> (and (<= 0 i) (< i al)) (= (select a (+ ao i)) (select b (+ bo i)))))))`

func (fx *FnCtx) strEqConstLen(a, b Val, n int64) T {
	cs := []T{eq(a.strLen(), num(n))}
	for i := int64(0); i < n; i++ {
		cs = append(cs, eq(sel(a.strArr(), add(a.strOff(), num(i))), sel(b.strArr(), add(b.strOff(), num(i)))))
	}
	return and(cs...)
}

func (fr *Frame) strConcat(st *State, a, b Val, rsh *Shape) Val {
	fx := fr.fx
	arr := fx.decls.Fresh("cat", sArr)
	n := fx.define("catlen", sInt, add(a.strLen(), b.strLen()))
	fx.assume(st.guard, app("forall", "((i Int))", app("!", imp(and(le("0", "i"), lt("i", a.strLen())), eq(sel(arr, "i"), sel(a.strArr(), add(a.strOff(), "i")))), ":pattern", "("+sel(arr, "i")+")")))
	fx.assume(st.guard, app("forall", "((i Int))", app("!", imp(and(le("0", "i"), lt("i", b.strLen())), eq(sel(arr, add(a.strLen(), "i")), sel(b.strArr(), add(b.strOff(), "i")))), ":pattern", "("+sel(arr, add(a.strLen(), "i"))+")")))
	return mkStr(rsh, arr, "0", n)
}
