package main

import (
	"fmt"
	"path/filepath"
)

// Bounded stand-in for the clauses of property C08 that the contracts do not
// reach: (a) the outcome of Parse does not depend on how the reader fragments
// the byte stream and the tokens are the lines of the source (bufio.Scanner is
// an assumed library); (b) the global behaviour of DefaultStorage over a whole
// history - answers without duplicates, in first-seen order, the two indexes
// agreeing - which needs ownership between the per-key sets.
const c08TestSrc = `package hostsfile_test

import (
	"fmt"
	"io"
	"net/netip"
	"slices"
	"strings"
	"testing"

	"github.com/AdguardTeam/golibs/hostsfile"
	"github.com/AdguardTeam/golibs/netutil"
)

// govcWellFormed: the reading of "well-formed line" in the property text:
// after removing a '#' comment, space/tab separated fields, an address
// accepted by netip.ParseAddr and one or more names accepted by
// ValidateDomainName.
func govcWellFormed(line string) (addr netip.Addr, names []string, ok bool) {
	if i := strings.IndexByte(line, '#'); i >= 0 {
		line = line[:i]
	}
	f := strings.FieldsFunc(line, func(r rune) bool { return r == ' ' || r == '\t' })
	if len(f) < 2 {
		return addr, nil, false
	}
	addr, err := netip.ParseAddr(f[0])
	if err != nil {
		return addr, nil, false
	}
	for _, n := range f[1:] {
		if netutil.ValidateDomainName(n) != nil {
			return addr, nil, false
		}
	}
	return addr, f[1:], true
}

type govcChunk struct {
	s string
	n int
}

func (r *govcChunk) Read(p []byte) (int, error) {
	if r.s == "" {
		return 0, io.EOF
	}
	k := min(r.n, len(p), len(r.s))
	copy(p, r.s[:k])
	r.s = r.s[k:]
	return k, nil
}

func (r *govcChunk) Name() string { return "src" }

type govcSet struct{ log []string }

func (s *govcSet) Add(r *hostsfile.Record) {
	s.log = append(s.log, fmt.Sprintf("add %%s %%v %%q", r.Source, r.Addr, r.Names))
}

func (s *govcSet) HandleInvalid(src string, data []byte, err error) {
	s.log = append(s.log, fmt.Sprintf("bad %%s %%q %%v", src, data, err))
}

func TestGovcReplay(t *testing.T) {
	cases, fails := 0, 0
	report := func(format string, args ...any) {
		fails++
		if fails <= 8 {
			fmt.Printf("GOVC-BOUNDED-FAIL "+format+"\n", args...)
		}
	}
	// (a) fragmentation independence and line numbering
	lines := []string{"1.2.3.4 a.example", "::1 b c", "", "# c", "1.2.3.4", "x y", "1.2.3.4 -bad", "2.2.2.2 A.Example # t", " \t", "3.3.3.3 a.example\fb", "3.3.3.3 a\vb.example c"}
	maxLines := %d
	var texts []string
	var gen func(cur []string)
	gen = func(cur []string) {
		if len(cur) > 0 {
			texts = append(texts, strings.Join(cur, "\n"), strings.Join(cur, "\n")+"\n", strings.Join(cur, "\r\n"))
		}
		if len(cur) == maxLines {
			return
		}
		for _, l := range lines {
			gen(append(cur[:len(cur):len(cur)], l))
		}
	}
	gen(nil)
	for _, text := range texts {
		var ref []string
		for i, n := range []int{1 << 20, 1, 2, 3, 7} {
			cases++
			set := &govcSet{}
			if err := hostsfile.Parse(set, &govcChunk{s: text, n: n}, nil); err != nil {
				report("Parse(%%q) in chunks of %%d: %%v", text, n, err)
				break
			}
			if i == 0 {
				ref = set.log
				// the reference run itself: one outcome per line, numbered from 1
				want := strings.Count(strings.TrimSuffix(text, "\n"), "\n") + 1
				if text == "" {
					want = 0 // an empty source has no lines
				}
				if len(ref) != want {
					report("Parse(%%q): %%d outcomes for %%d lines", text, len(ref), want)
				}
				for k, e := range ref {
					if strings.HasPrefix(e, "bad") && !strings.Contains(e, fmt.Sprintf("line %%d:", k+1)) {
						report("Parse(%%q): outcome %%d is %%s", text, k+1, e)
					}
				}
				// the records are those of the well-formed lines, with their
				// address and names
				srcLines := strings.Split(strings.TrimSuffix(text, "\n"), "\n")
				for k, e := range ref {
					if k >= len(srcLines) {
						break
					}
					a, ns, ok := govcWellFormed(strings.TrimSuffix(srcLines[k], "\r"))
					if ok && e != fmt.Sprintf("add src %%v %%q", a, ns) {
						report("Parse(%%q): line %%d is well-formed, outcome %%s", text, k+1, e)
					} else if !ok && !strings.HasPrefix(e, "bad") {
						report("Parse(%%q): line %%d is not well-formed, outcome %%s", text, k+1, e)
					}
				}
				continue
			}
			if !slices.Equal(set.log, ref) {
				report("Parse(%%q) in chunks of %%d: %%v, want %%v", text, n, set.log, ref)
				break
			}
		}
	}
	// (b) DefaultStorage against a reference model
	addrs := []netip.Addr{netip.MustParseAddr("1.1.1.1"), netip.MustParseAddr("::1"), netip.MustParseAddr("fe80::1%%a")}
	names := [][]string{{"a"}, {"A"}, {"b", "a"}, {"B", "b", "c"}, {}}
	depth := %d
	type rec struct {
		a netip.Addr
		n []string
	}
	var all []rec
	for _, a := range addrs {
		for _, n := range names {
			all = append(all, rec{a, n})
		}
	}
	var run func(seq []rec)
	run = func(seq []rec) {
		cases++
		s, _ := hostsfile.NewDefaultStorage()
		byAddr := map[netip.Addr][]string{}
		byName := map[string][]netip.Addr{}
		for _, r := range seq {
			s.Add(&hostsfile.Record{Addr: r.a, Names: r.n})
			for _, n := range r.n {
				l := strings.ToLower(n)
				if !slices.ContainsFunc(byAddr[r.a], func(x string) bool { return strings.ToLower(x) == l }) {
					byAddr[r.a] = append(byAddr[r.a], n)
				}
				if !slices.Contains(byName[l], r.a) {
					byName[l] = append(byName[l], r.a)
				}
			}
		}
		for _, a := range addrs {
			if got := s.ByAddr(a); !slices.Equal(got, byAddr[a]) {
				report("after %%v: ByAddr(%%v) = %%q, want %%q", seq, a, got, byAddr[a])
				return
			}
		}
		for _, n := range []string{"a", "A", "b", "B", "c", "d"} {
			if got := s.ByName(n); !slices.Equal(got, byName[strings.ToLower(n)]) {
				report("after %%v: ByName(%%q) = %%v, want %%v", seq, n, got, byName[strings.ToLower(n)])
				return
			}
		}
		if len(seq) == depth {
			return
		}
		for _, r := range all {
			run(append(seq[:len(seq):len(seq)], r))
		}
	}
	run(nil)
	fmt.Printf("GOVC-BOUNDED cases=%%d accepted=%%d failures=%%d\n", cases, cases, fails)
}
`

func c08Bounded(eng *Engine, tier string, seed int64) *BoundedResult {
	maxLines, depth := 3, 3
	if tier == "thorough" {
		maxLines, depth = 4, 4
	}
	out := runHarness(repoDir(), filepath.Join(repoDir(), "hostsfile"), fmt.Sprintf(c08TestSrc, maxLines, depth))
	res := &BoundedResult{
		What:  "(a) Parse with a recording HandleSet gives the same sequence of Add / HandleInvalid calls whether the source is read whole or in chunks of 1, 2, 3 or 7 bytes, one outcome per line, rejected lines numbered from 1, a record with the address and the space/tab separated names exactly for the lines that a reference reading of the grammar (netip.ParseAddr, ValidateDomainName) calls well-formed; (b) DefaultStorage after every sequence of records answers ByAddr / ByName like a reference model (first-seen order, no duplicates, case-insensitive names, both indexes from the same records)",
		Bound: fmt.Sprintf("(a) every text of at most %d lines from 11 line forms (two with form feed / vertical tab inside a name), with LF, trailing LF and CRLF; (b) every sequence of at most %d records over 3 addresses (one zoned) and 5 name lists (case variants, empty)", maxLines, depth),
	}
	parseBounded(out, res)
	return res
}
