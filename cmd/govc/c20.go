package main

import (
	"path/filepath"
	"strings"
)

// Bounded stand-in for the clauses of property C20 that the contracts do not
// reach: what the wrapped handler observes through LogMiddleware (its own
// request, a context logger carrying host, method, raddr and request_uri), that
// the client receives exactly what the invocation wrote, and that the
// "finished" record carries the status the invocation set (200 when none).
// Sequential requests only; isolation under concurrent requests is not
// covered by anything here.
const c20TestSrc = `package httputil_test

import (
	"bytes"
	"fmt"
	"io"
	"log/slog"
	"net/http"
	"net/http/httptest"
	"strings"
	"testing"

	"github.com/AdguardTeam/golibs/logutil/slogutil"
	"github.com/AdguardTeam/golibs/netutil/httputil"
)

type govcMw struct {
	name  string
	trace *[]string
}

func (m govcMw) Wrap(h http.Handler) http.Handler {
	return http.HandlerFunc(func(w http.ResponseWriter, r *http.Request) {
		*m.trace = append(*m.trace, m.name)
		h.ServeHTTP(w, r)
	})
}

func TestGovcReplay(t *testing.T) {
	cases, fails := 0, 0
	report := func(format string, args ...any) {
		fails++
		if fails <= 8 {
			fmt.Printf("GOVC-BOUNDED-FAIL "+format+"\n", args...)
		}
	}
	// order of Wrap, also when the same slice is reused
	for n := 0; n <= 4; n++ {
		var trace []string
		var mws []httputil.Middleware
		var want []string
		for i := 0; i < n; i++ {
			mws = append(mws, govcMw{fmt.Sprint("m", i+1), &trace})
			want = append(want, fmt.Sprint("m", i+1))
		}
		want = append(want, "h")
		for round := 0; round < 3; round++ {
			cases++
			trace = nil
			h := httputil.Wrap(http.HandlerFunc(func(http.ResponseWriter, *http.Request) { trace = append(trace, "h") }), mws...)
			h.ServeHTTP(httptest.NewRecorder(), httptest.NewRequest("GET", "/", nil))
			if fmt.Sprint(trace) != fmt.Sprint(want) {
				report("Wrap with %%d middlewares, use %%d of the same slice: order %%v, want %%v", n, round+1, trace, want)
			}
		}
	}
	// LogMiddleware, sequential requests through one middleware (pooled objects are reused)
	logs := &bytes.Buffer{}
	logger := slog.New(slog.NewTextHandler(logs, &slog.HandlerOptions{Level: slog.LevelDebug}))
	mw := httputil.NewLogMiddleware(logger, slog.LevelInfo)
	type reqSpec struct {
		method, target, host, body, hdr string
		code                            int // 0: the handler sets none
		write                           string
	}
	specs := []reqSpec{
		{"GET", "/a?x=1", "one.example", "", "h1", 0, "hello"},
		{"POST", "/b", "two.example", "payload", "h2", 404, "missing"},
		{"PUT", "/c/d", "three.example", "zz", "h3", 201, ""},
		{"GET", "/e", "four.example", "", "h4", 0, ""},
		{"DELETE", "/f", "five.example", "", "h5", 500, "boom"},
	}
	for round := 0; round < 3; round++ {
		for _, sp := range specs {
			cases++
			logs.Reset()
			var seen string
			inner := http.HandlerFunc(func(w http.ResponseWriter, r *http.Request) {
				b, _ := io.ReadAll(r.Body)
				seen = fmt.Sprintf("%%s %%s %%s %%s %%s", r.Method, r.URL.String(), r.Host, r.Header.Get("X-T"), b)
				l, ok := slogutil.LoggerFromContext(r.Context())
				if !ok {
					seen += " no-context-logger"
				} else {
					l.Info("from handler")
				}
				if sp.code != 0 {
					w.WriteHeader(sp.code)
				}
				_, _ = io.WriteString(w, sp.write)
			})
			req := httptest.NewRequest(sp.method, "http://"+sp.host+sp.target, strings.NewReader(sp.body))
			req.Header.Set("X-T", sp.hdr)
			req.RemoteAddr = "192.0.2." + fmt.Sprint(len(sp.host)) + ":1234"
			rec := httptest.NewRecorder()
			mw.Wrap(inner).ServeHTTP(rec, req)
			if want := fmt.Sprintf("%%s %%s %%s %%s %%s", sp.method, "http://"+sp.host+sp.target, sp.host, sp.hdr, sp.body); seen != want {
				report("handler observed %%q, want %%q", seen, want)
			}
			wantCode := sp.code
			if wantCode == 0 {
				wantCode = 200
			}
			if rec.Code != wantCode || rec.Body.String() != sp.write {
				report("client received %%d %%q, want %%d %%q", rec.Code, rec.Body.String(), wantCode, sp.write)
			}
			out := logs.String()
			for _, line := range strings.Split(strings.TrimSpace(out), "\n") {
				for _, kv := range []string{"host=" + sp.host, "method=" + sp.method, "raddr=" + req.RemoteAddr, "request_uri=" + req.RequestURI} {
					quoted := kv[:strings.Index(kv, "=")+1] + fmt.Sprintf("%%q", kv[strings.Index(kv, "=")+1:])
					if !strings.Contains(line+" ", kv+" ") && !strings.Contains(line+" ", quoted+" ") {
						report("log line %%q lacks %%s", line, kv)
					}
				}
			}
			if !strings.Contains(out, "msg=\"from handler\"") {
				report("the context logger did not reach the log: %%q", out)
			}
			finished := ""
			for _, line := range strings.Split(out, "\n") {
				if strings.Contains(line, "msg=finished ") {
					finished += line
				}
			}
			if !strings.Contains(finished, fmt.Sprintf(" code=%%d ", wantCode)) || strings.Count(out, "msg=finished ") != 1 {
				report("not exactly one finished record reporting code %%d: %%q", wantCode, out)
			}
		}
	}
	fmt.Printf("GOVC-BOUNDED cases=%%d accepted=%%d failures=%%d\n", cases, cases, fails)
}
`

func c20Bounded(eng *Engine, tier string, seed int64) *BoundedResult {
	out := runHarness(repoDir(), filepath.Join(repoDir(), "netutil", "httputil"), strings.ReplaceAll(c20TestSrc, "%%", "%"))
	res := &BoundedResult{
		What:  "Wrap passes a request through m1..mn in that order before h (0..4 middlewares, the same argument slice used three times); through one LogMiddleware, request after request: the wrapped handler observes its own request (method, URL, host, header, body), a context logger whose records carry host, method, raddr and request_uri; the client receives the status and body the invocation wrote; the finished record reports that status (200 when none was set)",
		Bound: "5 request shapes (4 methods, with and without body, explicit codes 201/404/500 and none) x 3 rounds through the same middleware (so pooled objects are reused); one goroutine",
	}
	parseBounded(out, res)
	return res
}
