package main

// Contract language: file/block structure and expression parser.

import (
	"fmt"
	"strconv"
	"strings"
)

// ---------------------------------------------------------------------------
// AST

type Expr interface{}

type (
	EIdent  struct{ Name string }
	EInt    struct{ V string } // decimal text (may exceed int64)
	EBool   struct{ V bool }
	EStr    struct{ V string } // raw bytes
	ENil    struct{}
	EUnary  struct {
		Op string
		X  Expr
	}
	EBinary struct {
		Op   string
		L, R Expr
	}
	ECall struct {
		Fn   string
		Args []Expr
	}
	EIndex struct{ X, I Expr }
	ESlice struct{ X, Lo, Hi Expr } // Lo/Hi may be nil
	EField struct {
		X    Expr
		Name string
	}
	EQuant struct {
		Forall bool
		Var    string
		Lo, Hi Expr
		Body   Expr
	}
	ECond struct{ C, A, B Expr }
	ELet  struct {
		Var  string
		Val  Expr
		Body Expr
	}
)

// ---------------------------------------------------------------------------
// Lexer

type tok struct {
	kind string // id, int, str, chr, op, eof
	text string
	pos  int
}

type lexer struct {
	src  string
	toks []tok
	p    int
}

var ops = []string{"<==>", "==>", "..", "&&", "||", "==", "!=", "<=", ">=", "<<", ">>", "&^",
	"+", "-", "*", "/", "%", "&", "|", "^", "<", ">", "!", "(", ")", "[", "]", ",", ":", ".", "?", "=", "{", "}"}

func lex(src string) ([]tok, error) {
	var out []tok
	i := 0
	for i < len(src) {
		c := src[i]
		switch {
		case c == ' ' || c == '\t' || c == '\n' || c == '\r':
			i++
		case c == '/' && i+1 < len(src) && src[i+1] == '/':
			for i < len(src) && src[i] != '\n' {
				i++
			}
		case isIdentStart(c):
			j := i
			for j < len(src) && (isIdentStart(src[j]) || src[j] >= '0' && src[j] <= '9') {
				j++
			}
			out = append(out, tok{"id", src[i:j], i})
			i = j
		case c >= '0' && c <= '9':
			j := i
			for j < len(src) && (src[j] >= '0' && src[j] <= '9' || src[j] >= 'a' && src[j] <= 'f' || src[j] >= 'A' && src[j] <= 'F' || src[j] == 'x' || src[j] == 'X' || src[j] == '_') {
				j++
			}
			out = append(out, tok{"int", src[i:j], i})
			i = j
		case c == '"':
			j := i + 1
			for j < len(src) && src[j] != '"' {
				if src[j] == '\\' {
					j++
				}
				j++
			}
			if j >= len(src) {
				return nil, fmt.Errorf("unterminated string at %d", i)
			}
			s, err := strconv.Unquote(src[i : j+1])
			if err != nil {
				return nil, fmt.Errorf("bad string %s: %v", src[i:j+1], err)
			}
			out = append(out, tok{"str", s, i})
			i = j + 1
		case c == '\'':
			j := i + 1
			for j < len(src) && src[j] != '\'' {
				if src[j] == '\\' {
					j++
				}
				j++
			}
			if j >= len(src) {
				return nil, fmt.Errorf("unterminated char at %d", i)
			}
			r, _, _, err := strconv.UnquoteChar(src[i+1:j], '\'')
			if err != nil {
				return nil, fmt.Errorf("bad char %s: %v", src[i:j+1], err)
			}
			out = append(out, tok{"int", strconv.Itoa(int(r)), i})
			i = j + 1
		default:
			matched := false
			for _, o := range ops {
				if strings.HasPrefix(src[i:], o) {
					out = append(out, tok{"op", o, i})
					i += len(o)
					matched = true
					break
				}
			}
			if !matched {
				return nil, fmt.Errorf("unexpected character %q at %d", c, i)
			}
		}
	}
	out = append(out, tok{"eof", "", len(src)})
	return out, nil
}

func isIdentStart(c byte) bool {
	return c >= 'a' && c <= 'z' || c >= 'A' && c <= 'Z' || c == '_' || c == '$'
}

// ---------------------------------------------------------------------------
// Parser

type parser struct {
	toks []tok
	p    int
	src  string
}

func parseExpr(src string) (e Expr, err error) {
	toks, err := lex(src)
	if err != nil {
		return nil, err
	}
	p := &parser{toks: toks, src: src}
	defer func() {
		if r := recover(); r != nil {
			if pe, ok := r.(parseErr); ok {
				err = fmt.Errorf("%s in %q", pe.msg, src)
				return
			}
			panic(r)
		}
	}()
	e = p.expr()
	if p.peek().kind != "eof" {
		p.fail("unexpected %q", p.peek().text)
	}
	return e, nil
}

type parseErr struct{ msg string }

func (p *parser) fail(f string, a ...any) { panic(parseErr{fmt.Sprintf(f, a...)}) }
func (p *parser) peek() tok              { return p.toks[p.p] }
func (p *parser) next() tok              { t := p.toks[p.p]; p.p++; return t }
func (p *parser) isOp(s string) bool     { t := p.peek(); return t.kind == "op" && t.text == s }
func (p *parser) isID(s string) bool     { t := p.peek(); return t.kind == "id" && t.text == s }
func (p *parser) expectOp(s string) {
	if !p.isOp(s) {
		p.fail("expected %q, got %q", s, p.peek().text)
	}
	p.p++
}

func (p *parser) expr() Expr {
	if p.isID("forall") || p.isID("exists") {
		fa := p.next().text == "forall"
		v := p.next()
		if v.kind != "id" {
			p.fail("expected variable after quantifier")
		}
		if p.isOp(":") {
			// unbounded: forall x: body
			p.next()
			body := p.expr()
			return &EQuant{Forall: fa, Var: v.text, Body: body}
		}
		if !p.isID("in") {
			p.fail("expected 'in' after quantified variable")
		}
		p.next()
		lo := p.binary(6)
		p.expectOp("..")
		hi := p.binary(6)
		p.expectOp(":")
		body := p.expr()
		return &EQuant{Forall: fa, Var: v.text, Lo: lo, Hi: hi, Body: body}
	}
	if p.isID("let") {
		p.next()
		v := p.next()
		p.expectOp("=")
		val := p.cond()
		if !p.isID("in") {
			p.fail("expected 'in' in let")
		}
		p.next()
		body := p.expr()
		return &ELet{Var: v.text, Val: val, Body: body}
	}
	return p.cond()
}

func (p *parser) cond() Expr {
	c := p.binary(1)
	if p.isOp("?") {
		p.next()
		a := p.expr()
		p.expectOp(":")
		b := p.expr()
		return &ECond{c, a, b}
	}
	return c
}

var precs = map[string]int{
	"<==>": 1, "==>": 2, "||": 3, "&&": 4,
	"==": 5, "!=": 5, "<": 5, "<=": 5, ">": 5, ">=": 5,
	"+": 6, "-": 6, "|": 6, "^": 6,
	"*": 7, "/": 7, "%": 7, "&": 7, "<<": 7, ">>": 7, "&^": 7,
}

func (p *parser) binary(minPrec int) Expr {
	l := p.unary()
	for {
		t := p.peek()
		if t.kind != "op" {
			return l
		}
		pr, ok := precs[t.text]
		if !ok || pr < minPrec {
			return l
		}
		p.next()
		var r Expr
		if t.text == "==>" {
			// right associative; the consequent may be a quantifier
			if p.isID("forall") || p.isID("exists") || p.isID("let") {
				r = p.expr()
			} else {
				r = p.binary(pr)
			}
		} else if (t.text == "&&" || t.text == "||") && (p.isID("forall") || p.isID("exists") || p.isID("let")) {
			r = p.expr()
		} else {
			r = p.binary(pr + 1)
		}
		l = &EBinary{Op: t.text, L: l, R: r}
	}
}

func (p *parser) unary() Expr {
	if p.isOp("!") || p.isOp("-") {
		op := p.next().text
		return &EUnary{Op: op, X: p.unary()}
	}
	return p.postfix()
}

func (p *parser) postfix() Expr {
	e := p.primary()
	for {
		switch {
		case p.isOp("["):
			p.next()
			var lo, hi Expr
			if p.isOp(":") {
				p.next()
				if !p.isOp("]") {
					hi = p.expr()
				}
				p.expectOp("]")
				e = &ESlice{X: e, Lo: nil, Hi: hi}
				continue
			}
			lo = p.expr()
			if p.isOp(":") {
				p.next()
				if !p.isOp("]") {
					hi = p.expr()
				}
				p.expectOp("]")
				e = &ESlice{X: e, Lo: lo, Hi: hi}
				continue
			}
			p.expectOp("]")
			e = &EIndex{X: e, I: lo}
		case p.isOp("."):
			p.next()
			n := p.next()
			if n.kind != "id" {
				p.fail("expected field name")
			}
			// qualified function call pkg.Name(...)
			if id, ok := e.(*EIdent); ok && p.isOp("(") {
				e = p.callArgs(id.Name + "." + n.text)
				continue
			}
			e = &EField{X: e, Name: n.text}
		default:
			return e
		}
	}
}

func (p *parser) callArgs(name string) Expr {
	p.expectOp("(")
	var args []Expr
	for !p.isOp(")") {
		args = append(args, p.expr())
		if p.isOp(",") {
			p.next()
		}
	}
	p.expectOp(")")
	return &ECall{Fn: name, Args: args}
}

func (p *parser) primary() Expr {
	t := p.next()
	switch t.kind {
	case "int":
		s := strings.ReplaceAll(t.text, "_", "")
		if strings.HasPrefix(s, "0x") || strings.HasPrefix(s, "0X") {
			v, err := strconv.ParseUint(s[2:], 16, 64)
			if err != nil {
				p.fail("bad hex literal %s", t.text)
			}
			return &EInt{V: strconv.FormatUint(v, 10)}
		}
		return &EInt{V: s}
	case "str":
		return &EStr{V: t.text}
	case "id":
		switch t.text {
		case "true":
			return &EBool{true}
		case "false":
			return &EBool{false}
		case "nil":
			return &ENil{}
		}
		if p.isOp("(") {
			return p.callArgs(t.text)
		}
		return &EIdent{Name: t.text}
	case "op":
		if t.text == "(" {
			e := p.expr()
			p.expectOp(")")
			return e
		}
	}
	p.fail("unexpected %q", t.text)
	return nil
}

// ---------------------------------------------------------------------------
// Contract blocks

type Clause struct {
	Label string
	Src   string
	E     Expr
	// Using (function ensures and loop invariants): the labelled hypotheses - loop and
	// monitor invariants, earlier proved clauses, "unpublished", "frame" -
	// that this clause's proof may use; the others are left out of its query.
	// Leaving hypotheses out can only lose proofs.
	Using []string
}

type LoopSpec struct {
	Ordinal    int
	Invariants []Clause
	Decreases  *Clause
	Modifies   []string
	// Applies are lemma instances assumed at every back edge ("apply
	// lemma(args)"; prev(e) is e at the loop head of the same iteration).
	Applies     []Clause
	HeadApplies []Clause // instances assumed at the loop head ("apply_head")
	Assumed     []Clause // assumed at the loop head without proof ("assume_invariant"; reported)
	// Steps are checked at every back edge only ("step"): what one
	// iteration does, over the current state and prev(e) = e at the loop
	// head of the same iteration.  Not assumed anywhere.
	Steps []Clause
}

type ParamDecl struct {
	Name string
	Type string
}

type FuncSpec struct {
	Name      string // e.g. "isIPv4Label", "(*cache).Set", "strings.Cut"
	Pkg       string // package path the block was declared in ("" for externs)
	Extern    bool
	Pure      bool
	Inline    bool
	Trusted   bool // contract assumed, body not verified (only for listed reasons)
	MayPanic  bool     // calls may panic (they run code outside the contracts): a panic point for recovering callers
	Recovers  []Clause // what holds of the named results whenever a panic is recovered
	From      map[string][]string // callee name suffix -> the only ensures labels of its contract this function needs (empty: none)
	ResultIs  string   // name of an uninterpreted spec function that denotes this (deterministic, effect-free) function's result
	Models    []Clause // limits of what an assumed contract models: a call outside them is undecided, not a violation
	Logged    bool // calls are recorded in the ghost event log (events/evis/evarg/evres)
	// AtCalls: clauses of the caller about every call of a named callee made
	// by this function, over arg0.. and result0..: `prove` before the call
	// (an obligation), `assume` after it (a listed assumption).  Used for
	// resource invariants of generic containers (what a pool hands out).
	AtCalls []AtCall
	Residual  bool // interface-method contract used only for dynamic types outside the module
	Params    []ParamDecl
	Results   []ParamDecl
	Requires  []Clause
	Ensures   []Clause
	Modifies  []string
	Loops     map[int]*LoopSpec
	// LoopCount ("loops N"): the number of loops the function had when its
	// loop contracts were written.  Loop contracts are keyed by ordinal, so
	// when a loop is added, removed or moved into a helper the clauses would
	// land on the wrong loops: a different count makes the function's proof
	// undecided instead (0 = not recorded).
	LoopCount int
	Panics    string // "never" (default) | "may"
	PanicWhen []Clause
	Lets      []ParamDecl // let name = expr (Type holds the source)
	File      string
	Uses      []string // lemmas assumed (as quantified facts) while verifying this function
	Applies   []Clause // lemma instances assumed at function entry
	ExitApplies []Clause // lemma instances assumed at the (merged) return point
	// calls through unknown function values (callbacks) made by this function
	CbRequires []Clause
	CbEnsures  []Clause
	CbModifies []string
	// StoreChecks: "check_at_store v label: expr" - the expression must hold
	// in the state right after every assignment to the local variable v
	// (other than its initialisation to a constant).
	StoreChecks map[string][]Clause
}

type SpecFn struct {
	Name      string
	Params    []ParamDecl
	Result    string
	Body      Expr
	BodySrc   string
	Decreases Expr
	Ensures   []Clause
	Recursive bool
	Opaque    bool
	Hidden    bool // the definition is only visible to lemmas that `reveal` it (recursive definitions make solvers unfold without end)
	Inline    bool // a macro: the body is evaluated in the caller's state (may read memory)
	Pkg       string
}

type LemmaSpec struct {
	Name     string
	Params   []ParamDecl
	Requires []Clause
	Ensures  []Clause
	Induct   string // variable to do induction on (nat, by predecessor)
	Strong   bool   // strong induction: hypothesis for all smaller values
	Uses     []string
	Pkg      string
	Calls    []LemmaCall
	Applies  []Clause // ground instances of other lemmas used in the proof
	Reveal   []string // hidden spec functions whose definition this proof may use
}

// LemmaCall is "call r = F(args)" inside a lemma: F is applied by contract.
// MonitorSpec: the mutex field protects state described by an invariant.
// Lock forgets the protected locations and assumes the invariant (other
// goroutines may have run); Unlock must re-establish it.
type MonitorSpec struct {
	Var        string // name of the enclosing object in the clauses
	Pkg        string
	Invariants []Clause
	// Assumed invariants are taken for granted when the lock is acquired
	// but are NOT proved at Unlock (reported as unchecked assumptions).
	Assumed  []Clause
	Modifies []string
}

type LemmaCall struct {
	Result string
	Fn     string
	Args   []Expr
	Src    string
}

type ContractSet struct {
	// Embedded: "pkgpath.Type.field" of struct-typed fields whose address is
	// stored in memory (intrusive lists): they are addressed as objects of
	// their own.  Guarded: "pkgpath.Type.field" -> name of the mutex field.
	Embedded map[string]bool
	Guarded  map[string]string
	Monitors map[string]*MonitorSpec // "pkgpath.Type.mutexfield"
	Funcs   map[string]*FuncSpec // key: pkgpath + "." + name  (externs: name)
	SpecFns map[string]*SpecFn
	Lemmas  map[string]*LemmaSpec
	Order   []string
}

func newContractSet() *ContractSet {
	return &ContractSet{Funcs: map[string]*FuncSpec{}, SpecFns: map[string]*SpecFn{}, Lemmas: map[string]*LemmaSpec{}, Embedded: map[string]bool{}, Guarded: map[string]string{}, Monitors: map[string]*MonitorSpec{}}
}

var clauseKeywords = map[string]bool{
	"requires": true, "ensures": true, "modifies": true, "loop": true, "invariant": true,
	"decreases": true, "func": true, "extern": true, "spec": true, "lemma": true, "pure": true,
	"inline": true, "panics": true, "trusted": true, "induction": true, "use": true, "def": true, "call": true, "apply": true, "apply_head": true, "apply_exit": true, "opaque": true, "embedded": true, "guarded": true, "callback": true, "monitor": true, "check_at_store": true, "assume_invariant": true, "residual": true, "result_is": true, "from": true, "models": true, "hidden": true, "reveal": true, "logged": true, "may_panic": true, "recovers": true, "at_call": true, "step": true, "using": true, "loops": true,
}

// AtCall is one at_call clause.
type AtCall struct {
	Callee string
	Assume bool
	Clause Clause
}

// parseContractText parses the body of one or more /*@ ... @*/ blocks (already
// stripped of the comment markers).
func (cs *ContractSet) parseContractText(text, pkgPath, file string) error {
	// join continuation lines
	var items []string
	for _, raw := range strings.Split(text, "\n") {
		line := raw
		if i := strings.Index(line, "//"); i >= 0 && !strings.Contains(line[:i], "\"") {
			line = line[:i]
		}
		trim := strings.TrimSpace(line)
		if trim == "" {
			continue
		}
		first := trim
		if i := strings.IndexAny(trim, " \t("); i >= 0 {
			first = trim[:i]
		}
		if clauseKeywords[first] || len(items) == 0 {
			items = append(items, trim)
		} else {
			items[len(items)-1] += " " + trim
		}
	}
	var curF *FuncSpec
	var curL *LoopSpec
	var curS *SpecFn
	var curLem *LemmaSpec
	var curMon *MonitorSpec
	lastKW := ""
	for _, it := range items {
		kw, rest := splitKW(it)
		var err error
		if kw != "using" {
			lastKW = kw
			if kw == "ensures" && (curL != nil || curS != nil || curLem != nil) {
				lastKW = "ensures-other"
			}
			if kw == "invariant" && (curL == nil || curMon != nil && curL == nil) {
				lastKW = "invariant-other"
			}
		}
		switch kw {
		case "func", "extern":
			curL, curS, curLem, curMon = nil, nil, nil, nil
			f := &FuncSpec{Pkg: pkgPath, Loops: map[int]*LoopSpec{}, File: file}
			if kw == "extern" {
				kw2, r2 := splitKW(rest)
				if kw2 != "func" {
					return fmt.Errorf("%s: expected 'extern func'", file)
				}
				rest = r2
				f.Extern = true
				f.Pkg = ""
			}
			if err = parseFuncHeader(f, rest); err != nil {
				return fmt.Errorf("%s: %v", file, err)
			}
			key := f.Name
			if !f.Extern {
				key = pkgPath + "." + f.Name
			}
			if _, dup := cs.Funcs[key]; dup {
				return fmt.Errorf("%s: duplicate contract for %s", file, key)
			}
			cs.Funcs[key] = f
			cs.Order = append(cs.Order, key)
			curF = f
		case "spec":
			curF, curL, curLem, curMon = nil, nil, nil, nil
			kw2, r2 := splitKW(rest)
			if kw2 != "fn" {
				return fmt.Errorf("%s: expected 'spec fn'", file)
			}
			s, err := parseSpecFn(r2)
			if err != nil {
				return fmt.Errorf("%s: %v", file, err)
			}
			s.Pkg = pkgPath
			if _, dup := cs.SpecFns[s.Name]; dup {
				return fmt.Errorf("%s: duplicate spec fn %s", file, s.Name)
			}
			cs.SpecFns[s.Name] = s
			curS = s
		case "lemma":
			curF, curL, curS, curMon = nil, nil, nil, nil
			l := &LemmaSpec{Pkg: pkgPath}
			name, params, _, err := parseSig(rest)
			if err != nil {
				return fmt.Errorf("%s: %v", file, err)
			}
			l.Name, l.Params = name, params
			cs.Lemmas[l.Name] = l
			curLem = l
		case "using":
			switch {
			case lastKW == "invariant" && curL != nil && len(curL.Invariants) > 0:
				curL.Invariants[len(curL.Invariants)-1].Using = append(curL.Invariants[len(curL.Invariants)-1].Using, splitComma(rest)...)
			case lastKW == "ensures" && curF != nil && len(curF.Ensures) > 0:
				curF.Ensures[len(curF.Ensures)-1].Using = append(curF.Ensures[len(curF.Ensures)-1].Using, splitComma(rest)...)
			default:
				return fmt.Errorf("%s: using must follow an ensures clause of a function or a loop invariant", file)
			}
			continue
		case "step":
			if curL == nil {
				return fmt.Errorf("%s: step outside a loop", file)
			}
			{
				label, src := splitLabel(rest)
				e, err := parseExpr(src)
				if err != nil {
					return fmt.Errorf("%s: step: %v", file, err)
				}
				curL.Steps = append(curL.Steps, Clause{Label: label, Src: src, E: e})
			}
		case "assume_invariant":
			label, src := splitLabel(rest)
			e, err := parseExpr(src)
			if err != nil {
				return fmt.Errorf("%s: assume_invariant: %v", file, err)
			}
			switch {
			case curL != nil:
				curL.Assumed = append(curL.Assumed, Clause{Label: label, Src: src, E: e})
			case curMon != nil:
				curMon.Assumed = append(curMon.Assumed, Clause{Label: label, Src: src, E: e})
			default:
				return fmt.Errorf("%s: assume_invariant outside monitor or loop", file)
			}
		case "requires", "ensures", "invariant", "decreases":
			label, src := splitLabel(rest)
			e, err := parseExpr(src)
			if err != nil {
				return fmt.Errorf("%s: %s: %v", file, kw, err)
			}
			cl := Clause{Label: label, Src: src, E: e}
			switch {
			case kw == "invariant" && curMon != nil && curL == nil:
				curMon.Invariants = append(curMon.Invariants, cl)
			case kw == "invariant" && curL != nil:
				curL.Invariants = append(curL.Invariants, cl)
			case kw == "decreases" && curL != nil:
				curL.Decreases = &cl
			case kw == "decreases" && curS != nil:
				curS.Decreases = e
			case kw == "ensures" && curS != nil:
				curS.Ensures = append(curS.Ensures, cl)
			case kw == "requires" && curLem != nil:
				curLem.Requires = append(curLem.Requires, cl)
			case kw == "ensures" && curLem != nil:
				curLem.Ensures = append(curLem.Ensures, cl)
			case kw == "requires" && curF != nil:
				curF.Requires = append(curF.Requires, cl)
			case kw == "ensures" && curF != nil:
				curF.Ensures = append(curF.Ensures, cl)
			default:
				return fmt.Errorf("%s: misplaced %s clause: %s", file, kw, rest)
			}
		case "def":
			if curF == nil {
				return fmt.Errorf("%s: misplaced def", file)
			}
			i := strings.Index(rest, "=")
			if i < 0 {
				return fmt.Errorf("%s: bad let: %s", file, rest)
			}
			curF.Lets = append(curF.Lets, ParamDecl{Name: strings.TrimSpace(rest[:i]), Type: strings.TrimSpace(rest[i+1:])})
		case "call":
			if curLem == nil {
				return fmt.Errorf("%s: call outside lemma", file)
			}
			i := strings.Index(rest, "=")
			if i < 0 {
				return fmt.Errorf("%s: bad call clause %q", file, rest)
			}
			ce, err := parseExpr(strings.TrimSpace(rest[i+1:]))
			if err != nil {
				return fmt.Errorf("%s: call: %v", file, err)
			}
			call, ok := ce.(*ECall)
			if !ok {
				return fmt.Errorf("%s: call clause needs F(args)", file)
			}
			curLem.Calls = append(curLem.Calls, LemmaCall{Result: strings.TrimSpace(rest[:i]), Fn: call.Fn, Args: call.Args, Src: rest})
		case "apply", "apply_head", "apply_exit":
			// "lemma(args) [when cond]"
			var whenE Expr
			if i := strings.LastIndex(rest, " when "); i >= 0 {
				we, err := parseExpr(strings.TrimSpace(rest[i+6:]))
				if err != nil {
					return fmt.Errorf("%s: apply ... when: %v", file, err)
				}
				whenE = we
				rest = strings.TrimSpace(rest[:i])
			}
			e, err := parseExpr(rest)
			if err != nil {
				return fmt.Errorf("%s: apply: %v", file, err)
			}
			if _, ok := e.(*ECall); !ok {
				return fmt.Errorf("%s: apply needs lemma(args)", file)
			}
			if whenE != nil {
				e = &ECond{C: whenE, A: e, B: nil}
			}
			switch {
			case curLem != nil:
				curLem.Applies = append(curLem.Applies, Clause{Src: rest, E: e})
			case curF != nil && kw == "apply_exit":
				curF.ExitApplies = append(curF.ExitApplies, Clause{Src: rest, E: e})
			case curL != nil && kw == "apply_head":
				curL.HeadApplies = append(curL.HeadApplies, Clause{Src: rest, E: e})
			case curL != nil:
				curL.Applies = append(curL.Applies, Clause{Src: rest, E: e})
			case curF != nil && kw == "apply_exit":
				curF.ExitApplies = append(curF.ExitApplies, Clause{Src: rest, E: e})
			case curF != nil:
				curF.Applies = append(curF.Applies, Clause{Src: rest, E: e})
			default:
				return fmt.Errorf("%s: misplaced apply", file)
			}
		case "monitor":
			// monitor <var> <Type>.<mutexfield>
			fs := strings.Fields(rest)
			if len(fs) != 2 {
				return fmt.Errorf("%s: monitor <var> <Type>.<field>", file)
			}
			curF, curL, curS, curLem = nil, nil, nil, nil
			curMon = &MonitorSpec{Var: fs[0], Pkg: pkgPath}
			cs.Monitors[pkgPath+"."+fs[1]] = curMon
		case "embedded":
			for _, n := range splitComma(rest) {
				cs.Embedded[pkgPath+"."+n] = true
			}
		case "guarded":
			// guarded T.f, T.g by mu
			i := strings.LastIndex(rest, " by ")
			if i < 0 {
				return fmt.Errorf("%s: guarded ... by <mutex field>", file)
			}
			for _, n := range splitComma(rest[:i]) {
				cs.Guarded[pkgPath+"."+n] = strings.TrimSpace(rest[i+4:])
			}
		case "check_at_store":
			if curF == nil {
				return fmt.Errorf("%s: check_at_store outside func", file)
			}
			v, r2 := splitKW(rest)
			label, src := splitLabel(r2)
			e, err := parseExpr(src)
			if err != nil {
				return fmt.Errorf("%s: check_at_store: %v", file, err)
			}
			if curF.StoreChecks == nil {
				curF.StoreChecks = map[string][]Clause{}
			}
			curF.StoreChecks[v] = append(curF.StoreChecks[v], Clause{Label: label, Src: src, E: e})
		case "callback":
			// callback requires|ensures|modifies ...: about calls through
			// function values of unknown origin made by this function
			if curF == nil {
				return fmt.Errorf("%s: callback clause outside func", file)
			}
			kw2, r2 := splitKW(rest)
			switch kw2 {
			case "modifies":
				curF.CbModifies = append(curF.CbModifies, splitComma(r2)...)
			case "requires", "ensures":
				label, src := splitLabel(r2)
				e, err := parseExpr(src)
				if err != nil {
					return fmt.Errorf("%s: callback %s: %v", file, kw2, err)
				}
				cl := Clause{Label: label, Src: src, E: e}
				if kw2 == "requires" {
					curF.CbRequires = append(curF.CbRequires, cl)
				} else {
					curF.CbEnsures = append(curF.CbEnsures, cl)
				}
			default:
				return fmt.Errorf("%s: callback requires|ensures|modifies", file)
			}
		case "modifies":
			names := splitComma(rest)
			if curMon != nil && curF == nil {
				curMon.Modifies = append(curMon.Modifies, names...)
			} else if curL != nil {
				curL.Modifies = append(curL.Modifies, names...)
			} else if curF != nil {
				curF.Modifies = append(curF.Modifies, names...)
			}
		case "loops":
			if curF == nil {
				return fmt.Errorf("%s: loops outside func", file)
			}
			n, err := strconv.Atoi(strings.TrimSpace(rest))
			if err != nil || n < 0 {
				return fmt.Errorf("%s: bad loop count %q", file, rest)
			}
			curF.LoopCount = n
		case "loop":
			if curF == nil {
				return fmt.Errorf("%s: loop outside func", file)
			}
			n, err := strconv.Atoi(strings.TrimSpace(rest))
			if err != nil {
				return fmt.Errorf("%s: bad loop ordinal %q", file, rest)
			}
			curL = &LoopSpec{Ordinal: n}
			curF.Loops[n] = curL
		case "opaque":
			if curS != nil {
				curS.Opaque = true
			}
		case "inline":
			if curS != nil {
				curS.Inline = true
			} else if curF != nil {
				curF.Inline = true
			}
		case "pure":
			if curF != nil {
				curF.Pure = true
			}
		case "trusted":
			if curF != nil {
				curF.Trusted = true
			}
		case "residual":
			if curF != nil {
				curF.Residual = true
			}
		case "logged":
			if curF != nil {
				curF.Logged = true
			}
		case "result_is":
			if curF != nil {
				curF.ResultIs = strings.TrimSpace(rest)
			}
		case "at_call":
			if curF == nil {
				return fmt.Errorf("%s: at_call outside a function contract", file)
			}
			{
				callee, r2 := splitKW(strings.TrimSpace(rest))
				mode, r3 := splitKW(strings.TrimSpace(r2))
				if mode != "prove" && mode != "assume" {
					return fmt.Errorf("%s: at_call <callee> prove|assume <label>: <expr>", file)
				}
				label, src := splitLabel(r3)
				e, err := parseExpr(src)
				if err != nil {
					return fmt.Errorf("%s: at_call %s: %v", file, callee, err)
				}
				curF.AtCalls = append(curF.AtCalls, AtCall{Callee: callee, Assume: mode == "assume", Clause: Clause{Label: label, Src: src, E: e}})
			}
		case "from":
			// from <callee> nothing | from <callee> only l1, l2: which
			// postconditions of a callee's contract are brought into this
			// function's proof (keeps queries small)
			if curF == nil {
				return fmt.Errorf("%s: from outside a function contract", file)
			}
			{
				r := strings.TrimSpace(rest)
				var callee string
				var labels []string
				if i := strings.Index(r, " only "); i >= 0 {
					callee = strings.TrimSpace(r[:i])
					for _, l := range strings.Split(r[i+6:], ",") {
						if l = strings.TrimSpace(l); l != "" {
							labels = append(labels, l)
						}
					}
				} else if strings.HasSuffix(r, " nothing") {
					callee = strings.TrimSpace(strings.TrimSuffix(r, " nothing"))
				} else {
					return fmt.Errorf("%s: from <callee> nothing | only <labels>", file)
				}
				if curF.From == nil {
					curF.From = map[string][]string{}
				}
				curF.From[callee] = labels
			}
		case "models":
			if curF == nil {
				return fmt.Errorf("%s: models outside a function contract", file)
			}
			{
				label, src := splitLabel(rest)
				e, err := parseExpr(src)
				if err != nil {
					return fmt.Errorf("%s: models: %v", file, err)
				}
				curF.Models = append(curF.Models, Clause{Label: label, Src: src, E: e})
			}
		case "hidden":
			if curS != nil {
				curS.Hidden = true
			}
		case "reveal":
			if curLem != nil {
				curLem.Reveal = append(curLem.Reveal, strings.Fields(strings.ReplaceAll(rest, ",", " "))...)
			}
		case "may_panic":
			if curF != nil {
				curF.MayPanic = true
			}
		case "recovers":
			if curF == nil {
				return fmt.Errorf("%s: recovers outside a function contract", file)
			}
			label, src := splitLabel(rest)
			e, err := parseExpr(src)
			if err != nil {
				return fmt.Errorf("%s: recovers: %v", file, err)
			}
			curF.Recovers = append(curF.Recovers, Clause{Label: label, Src: src, E: e})
		case "panics":
			if curF != nil {
				curF.Panics = strings.TrimSpace(rest)
			}
		case "induction":
			if curLem != nil {
				r := strings.TrimSpace(rest)
				if strings.HasPrefix(r, "strong") {
					curLem.Strong = true
					r = strings.TrimSpace(strings.TrimPrefix(r, "strong"))
				}
				curLem.Induct = strings.TrimSpace(strings.TrimPrefix(r, "on"))
			}
		case "use":
			if curLem != nil {
				curLem.Uses = append(curLem.Uses, splitComma(rest)...)
			} else if curF != nil {
				curF.Uses = append(curF.Uses, splitComma(rest)...)
			}
		default:
			return fmt.Errorf("%s: unknown clause %q", file, it)
		}
	}
	return nil
}

func splitKW(s string) (kw, rest string) {
	s = strings.TrimSpace(s)
	i := strings.IndexAny(s, " \t")
	if i < 0 {
		return s, ""
	}
	return s[:i], strings.TrimSpace(s[i+1:])
}

// splitLabel recognises "label: expr" where label is an identifier directly
// followed by ':' (and not part of a ternary).
func splitLabel(s string) (label, rest string) {
	i := 0
	for i < len(s) && (isIdentStart(s[i]) || (i > 0 && s[i] >= '0' && s[i] <= '9')) {
		i++
	}
	if i > 0 && i < len(s) && s[i] == ':' {
		return s[:i], strings.TrimSpace(s[i+1:])
	}
	return "", s
}

// splitComma splits at top-level commas (not inside parentheses or quotes).
func splitComma(s string) []string {
	var out []string
	depth := 0
	inStr := false
	start := 0
	flush := func(end int) {
		p := strings.TrimSpace(s[start:end])
		if p != "" {
			out = append(out, p)
		}
	}
	for i := 0; i < len(s); i++ {
		switch c := s[i]; {
		case c == '"':
			inStr = !inStr
		case inStr:
		case c == '(' || c == '[':
			depth++
		case c == ')' || c == ']':
			depth--
		case c == ',' && depth == 0:
			flush(i)
			start = i + 1
		}
	}
	flush(len(s))
	return out
}

// parseFuncHeader parses "Name", "(*T).M", "(T).M" or, for externs,
// "pkg.Name(p T, ...) (r T, ...)" and "pkg.(*T).M(p T, ...) (r T, ...)".
func parseFuncHeader(f *FuncSpec, s string) error {
	s = strings.TrimSpace(s)
	// the parameter list starts at the first '(' that does not follow a '.'
	// and is not at the very beginning
	start := -1
	for i := 0; i < len(s); i++ {
		if s[i] != '(' {
			continue
		}
		if i == 0 || s[i-1] == '.' {
			// receiver group: skip to its closing parenthesis
			d := 0
			for ; i < len(s); i++ {
				if s[i] == '(' {
					d++
				} else if s[i] == ')' {
					d--
					if d == 0 {
						break
					}
				}
			}
			continue
		}
		start = i
		break
	}
	if start < 0 {
		f.Name = s
		return nil
	}
	_, params, results, err := parseSig("x" + s[start:])
	if err != nil {
		return err
	}
	f.Name, f.Params, f.Results = strings.TrimSpace(s[:start]), params, results
	return nil
}

// parseSig parses "name(p T, q U) (r V)" or "name(p T) V".
func parseSig(s string) (name string, params, results []ParamDecl, err error) {
	i := strings.Index(s, "(")
	if i < 0 {
		return strings.TrimSpace(s), nil, nil, nil
	}
	name = strings.TrimSpace(s[:i])
	depth := 0
	j := i
	for ; j < len(s); j++ {
		if s[j] == '(' {
			depth++
		} else if s[j] == ')' {
			depth--
			if depth == 0 {
				break
			}
		}
	}
	if j >= len(s) {
		return "", nil, nil, fmt.Errorf("unbalanced parentheses in %q", s)
	}
	params = parseParams(s[i+1 : j])
	rest := strings.TrimSpace(s[j+1:])
	if rest != "" {
		if strings.HasPrefix(rest, "(") {
			results = parseParams(strings.TrimSuffix(strings.TrimPrefix(rest, "("), ")"))
		} else {
			results = []ParamDecl{{Name: "result", Type: rest}}
		}
	}
	return name, params, results, nil
}

func parseParams(s string) []ParamDecl {
	var out []ParamDecl
	var pending []string
	for _, p := range splitComma(s) {
		fs := strings.Fields(p)
		if len(fs) == 1 {
			pending = append(pending, fs[0])
			continue
		}
		typ := strings.Join(fs[1:], " ")
		for _, n := range pending {
			out = append(out, ParamDecl{Name: n, Type: typ})
		}
		pending = nil
		out = append(out, ParamDecl{Name: fs[0], Type: typ})
	}
	for _, n := range pending { // unnamed: only types
		out = append(out, ParamDecl{Name: "_", Type: n})
	}
	return out
}

func parseSpecFn(s string) (*SpecFn, error) {
	// name(params) RT [= body]
	var bodySrc string
	head := s
	if i := indexTopLevelEq(s); i >= 0 {
		head = strings.TrimSpace(s[:i])
		bodySrc = strings.TrimSpace(s[i+1:])
	}
	name, params, results, err := parseSig(head)
	if err != nil {
		return nil, err
	}
	sf := &SpecFn{Name: name, Params: params}
	if len(results) == 1 {
		sf.Result = results[0].Type
	} else {
		return nil, fmt.Errorf("spec fn %s: need exactly one result type", name)
	}
	if bodySrc != "" {
		e, err := parseExpr(bodySrc)
		if err != nil {
			return nil, fmt.Errorf("spec fn %s: %v", name, err)
		}
		sf.Body = e
		sf.BodySrc = bodySrc
		sf.Recursive = mentionsCall(e, name)
	}
	return sf, nil
}

// indexTopLevelEq finds the first '=' that is not part of ==, <=, >=, !=, ==>.
func indexTopLevelEq(s string) int {
	depth := 0
	for i := 0; i < len(s); i++ {
		switch s[i] {
		case '(':
			depth++
		case ')':
			depth--
		case '=':
			if depth == 0 {
				prev := byte(' ')
				if i > 0 {
					prev = s[i-1]
				}
				next := byte(' ')
				if i+1 < len(s) {
					next = s[i+1]
				}
				if prev != '=' && prev != '<' && prev != '>' && prev != '!' && next != '=' {
					return i
				}
			}
		}
	}
	return -1
}

func mentionsCall(e Expr, name string) bool {
	found := false
	walkExpr(e, func(x Expr) {
		if c, ok := x.(*ECall); ok && c.Fn == name {
			found = true
		}
	})
	return found
}

func walkExpr(e Expr, f func(Expr)) {
	if e == nil {
		return
	}
	f(e)
	switch x := e.(type) {
	case *EUnary:
		walkExpr(x.X, f)
	case *EBinary:
		walkExpr(x.L, f)
		walkExpr(x.R, f)
	case *ECall:
		for _, a := range x.Args {
			walkExpr(a, f)
		}
	case *EIndex:
		walkExpr(x.X, f)
		walkExpr(x.I, f)
	case *ESlice:
		walkExpr(x.X, f)
		if x.Lo != nil {
			walkExpr(x.Lo, f)
		}
		if x.Hi != nil {
			walkExpr(x.Hi, f)
		}
	case *EField:
		walkExpr(x.X, f)
	case *EQuant:
		walkExpr(x.Lo, f)
		walkExpr(x.Hi, f)
		walkExpr(x.Body, f)
	case *ECond:
		walkExpr(x.C, f)
		walkExpr(x.A, f)
		walkExpr(x.B, f)
	case *ELet:
		walkExpr(x.Val, f)
		walkExpr(x.Body, f)
	}
}

// extractContractBlocks returns the concatenated text of all /*@ ... @*/
// blocks of a Go source file.
func extractContractBlocks(src string) string {
	var b strings.Builder
	for {
		i := strings.Index(src, "/*@")
		if i < 0 {
			break
		}
		j := strings.Index(src[i:], "@*/")
		if j < 0 {
			break
		}
		b.WriteString(src[i+3 : i+j])
		b.WriteString("\n")
		src = src[i+j+3:]
	}
	return b.String()
}
