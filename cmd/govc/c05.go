package main

import (
	"fmt"
	"path/filepath"
)

// Bounded stand-in for the parts of property C05 that are not proved at the
// level of the exported functions (the IPv4 half of PrefixFromReversedAddr's
// iff-statement and ExtractReversedAddr's "longest suffix"): both functions
// are compared, on the real code, with a decoder written independently from
// the property statement, over every sequence of up to maxLabels labels from
// a label alphabet, in front of both root suffixes and of non-ARPA tails,
// with and without a trailing dot and in upper case.
const c05TestSrc = `package netutil_test

import (
	"fmt"
	"net/netip"
	"strings"
	"testing"

	"github.com/AdguardTeam/golibs/netutil"
)

func govcOctet(l string) (byte, bool) {
	if l == "" || len(l) > 3 || (len(l) > 1 && l[0] == '0') {
		return 0, false
	}
	n := 0
	for _, c := range []byte(l) {
		if c < '0' || c > '9' {
			return 0, false
		}
		n = n*10 + int(c-'0')
	}
	return byte(n), n <= 255
}

func govcNibble(l string) (byte, bool) {
	if len(l) != 1 {
		return 0, false
	}
	c := l[0]
	switch {
	case c >= '0' && c <= '9':
		return c - '0', true
	case c >= 'a' && c <= 'f':
		return c - 'a' + 10, true
	case c >= 'A' && c <= 'F':
		return c - 'A' + 10, true
	}
	return 0, false
}

// govcPrefix: the prefix denoted by labels (all of them) followed by the
// given family suffix, per the property statement.
func govcPrefix(labels []string, v6 bool) (netip.Prefix, bool) {
	if !v6 {
		if len(labels) > 4 {
			return netip.Prefix{}, false
		}
		var b [4]byte
		for i, l := range labels {
			o, ok := govcOctet(l)
			if !ok {
				return netip.Prefix{}, false
			}
			b[len(labels)-1-i] = o
		}
		return netip.PrefixFrom(netip.AddrFrom4(b), 8*len(labels)), true
	}
	if len(labels) > 32 {
		return netip.Prefix{}, false
	}
	var b [16]byte
	for i, l := range labels {
		n, ok := govcNibble(l)
		if !ok {
			return netip.Prefix{}, false
		}
		j := len(labels) - 1 - i // nibble index from the most significant
		if j%%2 == 0 {
			b[j/2] |= n << 4
		} else {
			b[j/2] |= n
		}
	}
	return netip.PrefixFrom(netip.AddrFrom16(b), 4*len(labels)), true
}

func TestGovcReplay(t *testing.T) {
	maxLabels := %d
	alphabet := []string{"0", "1", "10", "255", "256", "00", "01", "a", "F", "g", "x-y", "_s"}
	cases, accepted, fails := 0, 0, 0
	report := func(format string, args ...any) {
		fails++
		if fails <= 8 {
			fmt.Printf("GOVC-BOUNDED-FAIL "+format+"\n", args...)
		}
	}
	check := func(labels []string, tail []string, v6 bool, isARPA bool) {
		name := strings.Join(append(append([]string{}, labels...), tail...), ".")
		for _, variant := range []string{name, name + ".", strings.ToUpper(name)} {
			cases++
			// PrefixFromReversedAddr: everything before the suffix must be labels of the family
			wantP, okP := netip.Prefix{}, false
			if isARPA && netutil.ValidateDomainName(strings.TrimSuffix(variant, ".")) == nil {
				wantP, okP = govcPrefix(labels, v6)
			}
			gotP, err := netutil.PrefixFromReversedAddr(variant)
			if (err == nil) != okP || (okP && gotP != wantP) {
				report("PrefixFromReversedAddr(%%q) = %%v, %%v; want %%v ok=%%v", variant, gotP, err, wantP, okP)
			}
			// ExtractReversedAddr: the longest label-aligned suffix that is such a name
			wantE, okE := netip.Prefix{}, false
			if isARPA && netutil.ValidateDomainName(strings.TrimSuffix(variant, ".")) == nil {
				for k := 0; k <= len(labels); k++ {
					if p, ok := govcPrefix(labels[k:], v6); ok {
						wantE, okE = p, true
						break
					}
				}
			}
			gotE, err := netutil.ExtractReversedAddr(variant)
			if (err == nil) != okE || (okE && gotE != wantE) {
				report("ExtractReversedAddr(%%q) = %%v, %%v; want %%v ok=%%v", variant, gotE, err, wantE, okE)
			}
			if okP || okE {
				accepted++
			}
		}
	}
	var rec func(labels []string)
	rec = func(labels []string) {
		check(labels, []string{"in-addr", "arpa"}, false, true)
		check(labels, []string{"ip6", "arpa"}, true, true)
		if len(labels) <= 2 {
			check(labels, []string{"in-addr", "arpa", "x"}, false, false)
			check(labels, []string{"xin-addr", "arpa"}, false, false)
			check(labels, []string{"xip6", "arpa"}, true, false)
			check(labels, []string{"arpa"}, true, false)
		}
		if len(labels) == maxLabels {
			return
		}
		for _, a := range alphabet {
			rec(append(labels[:len(labels):len(labels)], a))
		}
	}
	rec(nil)
	// long IPv6 names: 30..34 nibble labels
	for n := 30; n <= 34; n++ {
		var ls []string
		for i := 0; i < n; i++ {
			ls = append(ls, string("0123456789abcdef"[(i*7)%%16]))
		}
		check(ls, []string{"ip6", "arpa"}, true, true)
		check(append([]string{"host"}, ls...), []string{"ip6", "arpa"}, true, true)
	}
	fmt.Printf("GOVC-BOUNDED cases=%%d accepted=%%d failures=%%d\n", cases, accepted, fails)
}
`

func c05Bounded(eng *Engine, tier string, seed int64) *BoundedResult {
	maxLabels := 3
	if tier == "thorough" {
		maxLabels = 5
	}
	src := fmt.Sprintf(c05TestSrc, maxLabels)
	out := runHarness(repoDir(), filepath.Join(repoDir(), "netutil"), src)
	res := &BoundedResult{
		What:  "PrefixFromReversedAddr and ExtractReversedAddr compared, on the real code, with a decoder written independently from the property statement (succeeds iff ... labels followed by in-addr.arpa / ip6.arpa; the longest label-aligned suffix for Extract)",
		Bound: fmt.Sprintf("every sequence of at most %d labels over {0,1,10,255,256,00,01,a,F,g,x-y,_s} in front of in-addr.arpa, ip6.arpa and four non-ARPA tails, each as is, with a trailing dot and in upper case; IPv6 names of 30..34 nibble labels", maxLabels),
	}
	parseBounded(out, res)
	return res
}
