package main

import (
	"fmt"
	"go/token"
	"sort"

	"golang.org/x/tools/go/ssa"
)

// Unpublished fresh objects.
//
// When a lock is acquired the protected state is whatever other goroutines
// left (non-sequential mode: it is forgotten; sequential mode: it is the state
// at entry).  Either way it cannot contain a reference to an object that the
// current call has allocated itself and has not yet stored anywhere, passed to
// anyone or captured: nobody else can know its address.  Without this the
// solver may "find" such a reference in the unknown state (e.g. an existing
// list node whose prev pointer already is the node about to be inserted).
//
// publishers(a) is the static set of instructions that use the address of
// allocation a (or of one of its fields/elements) as a value; a is unpublished
// at instruction L if none of them can have executed before L.

func publishers(a *ssa.Alloc) []ssa.Instruction {
	var out []ssa.Instruction
	seen := map[ssa.Value]bool{}
	var walk func(v ssa.Value, depth int)
	walk = func(v ssa.Value, depth int) {
		if seen[v] {
			return
		}
		seen[v] = true
		refs := v.Referrers()
		if refs == nil {
			return
		}
		for _, r := range *refs {
			switch u := r.(type) {
			case *ssa.DebugRef:
			case *ssa.UnOp:
				if u.Op != token.MUL {
					out = append(out, u)
				}
			case *ssa.Store:
				if u.Val == v {
					out = append(out, u)
				}
			case *ssa.FieldAddr:
				if depth > 8 {
					out = append(out, u)
				} else {
					walk(u, depth+1)
				}
			case *ssa.IndexAddr:
				if u.X != v || depth > 8 {
					out = append(out, u)
				} else {
					walk(u, depth+1)
				}
			default:
				out = append(out, r)
			}
		}
	}
	walk(a, 0)
	return out
}

func instrIndex(in ssa.Instruction) int {
	for i, x := range in.Block().Instrs {
		if x == in {
			return i
		}
	}
	return -1
}

// mayPrecede: can p have executed when control is at l?
func mayPrecede(p, l ssa.Instruction) bool {
	if p.Block() == l.Block() && instrIndex(p) < instrIndex(l) {
		return true
	}
	// l's block reachable from p's block through at least one edge
	seen := map[*ssa.BasicBlock]bool{}
	work := append([]*ssa.BasicBlock{}, p.Block().Succs...)
	for len(work) > 0 {
		b := work[len(work)-1]
		work = work[:len(work)-1]
		if seen[b] {
			continue
		}
		seen[b] = true
		if b == l.Block() {
			return true
		}
		work = append(work, b.Succs...)
	}
	return false
}

// leafShapes lists, per flattened component of sh, the shape of the leaf it
// belongs to (parallel to sorts()).
func leafShapes(sh *Shape) []*Shape {
	if sh.rawSort != "" {
		return []*Shape{sh}
	}
	switch sh.kind {
	case KStruct, KTuple:
		var out []*Shape
		for _, f := range sh.fields {
			out = append(out, leafShapes(f)...)
		}
		return out
	case KArr:
		out := make([]*Shape, len(sh.sorts()))
		for i := range out {
			out[i] = sh // an array component: not a direct pointer leaf
		}
		return out
	default:
		out := make([]*Shape, len(sh.sorts()))
		for i := range out {
			out[i] = sh
		}
		return out
	}
}

// assumeUnpublished is called right after a lock has been acquired at
// instruction l of frame fr.
func (fr *Frame) assumeUnpublished(l ssa.Instruction, st *State) {
	if l == nil || l.Block() == nil || l.Parent() != fr.fn {
		return
	}
	fx := fr.fx
	type target struct {
		key string // shape key of the pointee
		t   T
	}
	var targets []target
	for _, b := range fr.fn.Blocks {
		for _, in := range b.Instrs {
			a, ok := in.(*ssa.Alloc)
			if !ok || !a.Heap {
				continue
			}
			v, have := fr.regs[a]
			if !have || v.ptr != nil || v.sh.kind != KPtr || len(v.ts) != 1 {
				continue
			}
			if !(a.Block() == l.Block() && instrIndex(a) < instrIndex(l)) && !a.Block().Dominates(l.Block()) {
				continue
			}
			pub := false
			for _, p := range publishers(a) {
				if mayPrecede(p, l) {
					pub = true
					break
				}
			}
			if pub {
				continue
			}
			esh := v.sh.elem
			targets = append(targets, target{esh.key, v.ts[0]})
			if esh.kind == KStruct {
				for i := range esh.fields {
					if fx.eng.contracts.Embedded[embeddedKey(esh, i)] {
						targets = append(targets, target{esh.fields[i].key, fx.embAddr(v.ts[0], i)})
					}
				}
			}
		}
	}
	if len(targets) == 0 {
		return
	}
	// every heap component that holds pointers to one of the target types
	oldLabel := fx.curLabel
	fx.curLabel = "unpublished"
	defer func() { fx.curLabel = oldLabel }()
	var all []*Shape
	for _, s := range shapes.m {
		all = append(all, s)
	}
	sort.Slice(all, func(i, j int) bool { return all[i].key < all[j].key })
	done := map[string]bool{}
	for _, tg := range targets {
		for _, s := range all {
			switch s.kind {
			case KStruct:
				if s.typ == nil || embeddedKey(s, 0) == "" {
					continue // only named module structs live in O| heaps with modelled fields
				}
				for c, leaf := range leafShapes(s) {
					if leaf.kind == KPtr && leaf.elem != nil && leaf.elem.key == tg.key {
						name := heapName(s, c)
						if done[name+"#"+tg.t] {
							continue
						}
						done[name+"#"+tg.t] = true
						h := fx.heapTerm(st, name, heapSort(s, c))
						fx.assume(st.guard, fmt.Sprintf("(forall ((x Int)) (! (not (= (select %s x) %s)) :pattern ((select %s x))))", h, tg.t, h))
					}
				}
			case KMap:
				if s.elem != nil && s.elem.kind == KPtr && s.elem.elem != nil && s.elem.elem.key == tg.key && len(s.fields) > 0 {
					_, val, _, valSorts, keySort := mapHeaps(s)
					if done[val[0]+"#"+tg.t] {
						continue
					}
					done[val[0]+"#"+tg.t] = true
					h := fx.heapTerm(st, val[0], arrSort(valSorts[0]))
					fx.assume(st.guard, fmt.Sprintf("(forall ((m Int) (k %s)) (! (not (= (select (select %s m) k) %s)) :pattern ((select (select %s m) k))))", keySort, h, tg.t, h))
				}
			}
		}
	}
	fx.noteAssumption("objects allocated by the current call that have not yet been stored anywhere, passed to a call or captured are not referenced by the state found when a lock is acquired (nobody else can know their address)")
}

// Addresses of embedded, separately addressed fields: an injective function
// of (enclosing object, field index) into the range above embBase, with its
// two inverses.  (Uninterpreted rather than base + 64*ref + field: the
// arithmetic form needs div for the inverse, which made the list proofs slow
// and unstable.  Every model of the arithmetic form is a model of these
// axioms, so nothing is assumed beyond it.)
func (fx *FnCtx) embDecl() {
	if fx.embDeclared {
		return
	}
	fx.embDeclared = true
	fx.decls.Raw("(declare-fun |emb| (Int Int) Int)")
	fx.decls.Raw("(declare-fun |emb.owner| (Int) Int)")
	fx.decls.Raw("(declare-fun |emb.field| (Int) Int)")
	fx.decls.Raw("(assert (forall ((r Int) (f Int)) (! (and (= (|emb.owner| (|emb| r f)) r) (= (|emb.field| (|emb| r f)) f) (<= " + embBase + " (|emb| r f))) :pattern ((|emb| r f)))))")
}

func (fx *FnCtx) embAddr(ref T, field int) T {
	fx.embDecl()
	return app("|emb|", ref, num(int64(field)))
}

func (fx *FnCtx) embOwner(a T) T {
	fx.embDecl()
	return app("|emb.owner|", a)
}
