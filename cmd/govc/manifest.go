package main

import (
	"encoding/json"
	"fmt"
	"os"
	"path/filepath"
	"sort"
)

// notApplicable lists the properties that are not claimed, with the reason.
var notApplicable = map[string]string{
	"C17": "quantifies over goroutine schedules of sync.Map.LoadOrStore, channel operations and select; the generator has no interleaving semantics and no per-call contract can express 'exactly once under every interleaving' or 'never more than n holders' (DESIGN.md section 6)",
}

// notYet lists properties whose contracts are not built yet.
var notYet = map[string]string{}

func cmdManifest() int {
	props := properties()
	var ids []string
	for id := range props {
		ids = append(ids, id)
	}
	sort.Strings(ids)
	var checks []map[string]any
	var serves []string
	for _, id := range ids {
		p := props[id]
		level := p.Level
		if level == "" {
			level = "proof"
		}
		checks = append(checks, map[string]any{
			"property_id":         id,
			"quick_cmd":           fmt.Sprintf("bin/govc check %s --tier quick", id),
			"thorough_cmd":        fmt.Sprintf("bin/govc check %s --tier thorough", id),
			"evidence_file":       fmt.Sprintf("evidence/%s.json", id),
			"replay_cmd_template": "bin/govc replay {path}",
			"engine":              "govc",
			"level_claimed":       map[string]any{"category": level, "text": p.LevelText, "design_ref": "DESIGN.md section 5 " + id},
			"level_note":          p.LevelNote,
			"technique":           p.Technique,
		})
		serves = append(serves, id)
	}
	var na []map[string]string
	all := []string{"C01", "C02", "C03", "C04", "C05", "C06", "C07", "C08", "C09", "C10", "C11", "C12", "C13", "C14", "C15", "C16", "C17", "C18", "C19", "C20"}
	for _, id := range all {
		if _, ok := props[id]; ok {
			continue
		}
		reason := notApplicable[id]
		if reason == "" {
			reason = notYet[id]
		}
		if reason == "" {
			reason = "contracts for this property are not built yet; no claim is made (no other technique is substituted)"
		}
		na = append(na, map[string]string{"property_id": id, "reason": reason})
	}
	m := map[string]any{
		"version":   1,
		"setup_cmd": "cd /verif && GOFLAGS=-mod=mod GOPROXY=off GOTOOLCHAIN=auto go build -o bin/govc ./cmd/govc",
		"hooks": map[string]any{
			"guard":            "verif",
			"enable":           "-tags=verif (contract files <pkg>/contracts_verif.go: a package clause and /*@ ... @*/ comment blocks only)",
			"baseline_off_cmd": "cd /repo && GOFLAGS=-mod=mod go test -json -vet=off -count=1 -timeout 25m ./...",
			"source_commits":   hookCommits(),
			"add_only":         true,
		},
		"engines": []map[string]any{{
			"name": "govc", "path": "cmd/govc", "serves_properties": serves,
			"kind_free_text": "contract-based deductive verifier for Go written for this task: go/ssa (naive form) of the real functions in /repo's working tree, contracts in structured comments, weakest-precondition style VC generation with loops cut at invariants, one SMT query per obligation, discharged by z3 5.1.0 / z3 4.8.12 / cvc5 1.0",
		}},
		"checks":         checks,
		"not_applicable": na,
		"notes":          "Every check rebuilds from /repo's current working tree (go/packages with -tags=verif). Exit 0: all obligations of the property discharged (KNOWN-FINDING lines for the findings listed in known_findings.json); exit 1 + VIOLATION line: an obligation failed (replay file carries the model input replayed on the real code, or ends in no-failing-input-found). When part of the property cannot be decided on an edited tree (a contract no longer binds to the code, a library function without an assumed contract) the check prints UNDECIDED lines, lists the parts in the evidence file and exits 0 without a VIOLATION line (exit 2 with GOVC_UNDECIDED_EXIT=2); exit 2 otherwise only when the tree does not build.",
	}
	b, _ := json.MarshalIndent(m, "", " ")
	if err := os.WriteFile(filepath.Join(verifDir(), "MANIFEST.json"), append(b, '\n'), 0o644); err != nil {
		fmt.Fprintln(os.Stderr, err)
		return 2
	}
	return 0
}

func hookCommits() []string {
	b, err := os.ReadFile(filepath.Join(verifDir(), "hook_commits.txt"))
	if err != nil {
		return nil
	}
	var out []string
	for _, l := range splitLines(string(b)) {
		if l != "" {
			out = append(out, l)
		}
	}
	return out
}

func splitLines(s string) []string {
	var out []string
	cur := ""
	for _, c := range s {
		if c == '\n' {
			out = append(out, cur)
			cur = ""
		} else {
			cur += string(c)
		}
	}
	if cur != "" {
		out = append(out, cur)
	}
	return out
}
