package main

// C01: the set of functions is computed on every run: exported functions and
// methods declared in the anchored files, plus everything of the module they
// reach; each function that is exported or carries a (non-inline) contract is
// verified on its own, the rest are covered inlined into their callers.

import (
	"go/ast"
	"path/filepath"
	"sort"
	"strings"

	"golang.org/x/tools/go/ssa"
	"golang.org/x/tools/go/ssa/ssautil"
)

var c01Files = []string{
	"netutil/reversed.go", "netutil/addr.go", "netutil/ip.go", "netutil/hostport.go", "netutil/prefix.go",
	"netutil/addrconv.go", "netutil/subnetset.go", "hostsfile/record.go", "hostsfile/parse.go",
	"netutil/urlutil/url.go", "stringutil/stringutil.go", "timeutil/duration.go",
}

func c01Closure(eng *Engine) []string {
	anchored := map[string]bool{}
	for _, f := range c01Files {
		anchored[filepath.Join(eng.repo, f)] = true
	}
	all := ssautil.AllFunctions(eng.prog)
	roots := map[*ssa.Function]bool{}
	for fn := range all {
		if fn.Synthetic != "" || fn.Parent() != nil || !inModule(fn) || fn.Pkg == nil {
			continue
		}
		if fn.Origin() != nil && fn.Origin() != fn {
			continue
		}
		pos := eng.prog.Fset.Position(fn.Pos())
		if !anchored[pos.Filename] {
			continue
		}
		if !ast.IsExported(fn.Name()) {
			continue
		}
		roots[fn] = true
	}
	// reachability
	seen := map[*ssa.Function]bool{}
	var work []*ssa.Function
	for fn := range roots {
		work = append(work, fn)
	}
	for len(work) > 0 {
		fn := work[len(work)-1]
		work = work[:len(work)-1]
		if seen[fn] {
			continue
		}
		seen[fn] = true
		for _, b := range fn.Blocks {
			for _, in := range b.Instrs {
				var callee *ssa.Function
				switch x := in.(type) {
				case *ssa.Call:
					callee = x.Call.StaticCallee()
				case *ssa.Defer:
					callee = x.Call.StaticCallee()
				case *ssa.MakeClosure:
					callee, _ = x.Fn.(*ssa.Function)
				}
				if callee != nil {
					if callee.Origin() != nil {
						callee = callee.Origin()
					}
					if inModule(callee) && !seen[callee] {
						work = append(work, callee)
					}
				}
				// functions used as values
				for _, op := range in.Operands(nil) {
					if f, ok := (*op).(*ssa.Function); ok && inModule(f) && !seen[f] {
						work = append(work, f)
					}
				}
			}
		}
	}
	var keys []string
	for fn := range seen {
		if fn.Parent() != nil || fn.Synthetic != "" {
			continue
		}
		spec := eng.specFor(fn)
		if roots[fn] || (spec != nil && !spec.Inline) {
			keys = append(keys, strings.TrimPrefix(funcKey(fn), modulePrefix+"/"))
		}
	}
	sort.Strings(keys)
	return keys
}
