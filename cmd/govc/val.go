package main

// Symbolic values: a Shape derived from a Go type, and a Val that carries the
// flattened SMT components of a value of that shape.

import (
	"fmt"
	"go/types"
	"math/big"
	"strings"

	"golang.org/x/tools/go/ssa"
)

type Kind int

const (
	KInt Kind = iota
	KBool
	KStr
	KSlice
	KArr
	KStruct
	KIface
	KPtr
	KFunc
	KMap
	KOpaque // external value types and type parameters: one Int handle
	KTuple
	KChan
	KUnit // zero-size / ignored ($ssa.deferStack, rangeIter)
)

type Shape struct {
	kind   Kind
	typ    types.Type
	elem   *Shape
	n      int64
	fields []*Shape
	fnames []string
	key    string // stable textual key of the type (heap naming)
	rawSort string // for ghost components that are not Go values
}

type unsupported struct{ msg string }

func unsupp(format string, a ...any) { panic(unsupported{fmt.Sprintf(format, a...)}) }

// opaqueTypes are external named struct types modelled as one abstract handle.
var opaqueTypes = map[string]bool{
	"net/netip.Addr": true, "net/netip.Prefix": true, "net/netip.AddrPort": true,
	"time.Time": true, "strings.Builder": true,
	"unique.Handle[net/netip.addrDetail]": true,
	"sync.Mutex":                          true, "sync.RWMutex": true, "sync.Once": true,
	"sync/atomic.Int32": true, "sync/atomic.Int64": true, "sync/atomic.Uint64": true, "sync/atomic.Bool": true,
	"log/slog.Attr": true, "log/slog.Value": true, "log/slog.Record": false, "log/slog.Level": false,
	"bufio.Scanner": true, "encoding/json.Decoder": true, "bytes.Buffer": true, "net/url.Userinfo": true,
	"reflect.Value": true, "sync.Pool": true, "sync.WaitGroup": true, "sync.Map": true,
	"encoding/json.Encoder": true, "log/slog.TextHandler": true, "log/slog.HandlerOptions": false,
	"net/http.Request": false, "net/http.Header": false, "context.Context": false,
	"time.Timer": true, "time.Ticker": true, "log/slog.Logger": true,
}

type shapeCache struct {
	m map[types.Type]*Shape
}

var shapes = &shapeCache{m: map[types.Type]*Shape{}}

func typeKey(t types.Type) string {
	s := types.TypeString(t, nil)
	return s
}

func shapeOf(t types.Type) *Shape {
	if s, ok := shapes.m[t]; ok {
		return s
	}
	s := &Shape{typ: t, key: typeKey(t)}
	shapes.m[t] = s // set early for recursive types (through pointers)
	if tp, ok := t.(*types.TypeParam); ok {
		_ = tp
		s.kind = KOpaque
		return s
	}
	if n, ok := t.(*types.Named); ok {
		if opaqueTypes[s.key] || opaqueTypes[origKey(n)] {
			s.kind = KOpaque
			return s
		}
	}
	if a, ok := t.(*types.Alias); ok {
		*s = *shapeOf(types.Unalias(a))
		return s
	}
	switch u := t.Underlying().(type) {
	case *types.Basic:
		switch {
		case u.Info()&types.IsBoolean != 0:
			s.kind = KBool
		case u.Info()&types.IsInteger != 0:
			s.kind = KInt
		case u.Info()&types.IsString != 0:
			s.kind = KStr
		case u.Kind() == types.UnsafePointer:
			s.kind = KInt
		case u.Kind() == types.UntypedNil:
			s.kind = KPtr
		case u.Info()&types.IsFloat != 0:
			s.kind = KOpaque // floats are not interpreted
		default:
			s.kind = KUnit
		}
	case *types.Pointer:
		s.kind = KPtr
		s.elem = shapeOf(u.Elem())
	case *types.Slice:
		s.kind = KSlice
		s.elem = shapeOf(u.Elem())
	case *types.Array:
		s.kind = KArr
		s.elem = shapeOf(u.Elem())
		s.n = u.Len()
	case *types.Struct:
		s.kind = KStruct
		for i := 0; i < u.NumFields(); i++ {
			s.fields = append(s.fields, shapeOf(u.Field(i).Type()))
			s.fnames = append(s.fnames, u.Field(i).Name())
		}
	case *types.Interface:
		s.kind = KIface
	case *types.Signature:
		s.kind = KFunc
	case *types.Map:
		s.kind = KMap
		s.elem = shapeOf(u.Elem())
		s.fields = []*Shape{shapeOf(u.Key())}
	case *types.Chan:
		s.kind = KChan
	case *types.Tuple:
		s.kind = KTuple
		for i := 0; i < u.Len(); i++ {
			s.fields = append(s.fields, shapeOf(u.At(i).Type()))
			s.fnames = append(s.fnames, u.At(i).Name())
		}
	default:
		s.kind = KUnit
	}
	return s
}

func origKey(n *types.Named) string {
	o := n.Origin()
	if o.Obj().Pkg() == nil {
		return o.Obj().Name()
	}
	return o.Obj().Pkg().Path() + "." + o.Obj().Name()
}

// sorts returns the SMT sorts of the flattened components.
func (s *Shape) sorts() []string {
	if s.rawSort != "" {
		return []string{s.rawSort}
	}
	switch s.kind {
	case KInt, KOpaque, KPtr, KMap, KFunc, KChan:
		return []string{sInt}
	case KBool:
		return []string{sBool}
	case KStr:
		return []string{sArr, sInt, sInt}
	case KSlice:
		return []string{sInt, sInt, sInt, sInt}
	case KIface:
		return []string{sInt, sInt}
	case KArr:
		var out []string
		for _, e := range s.elem.sorts() {
			out = append(out, arrSort(e))
		}
		return out
	case KStruct, KTuple:
		var out []string
		for _, f := range s.fields {
			out = append(out, f.sorts()...)
		}
		return out
	}
	return nil
}

func (s *Shape) ncomp() int { return len(s.sorts()) }

// fieldRange returns the component index range of field i.
func (s *Shape) fieldRange(i int) (lo, hi int) {
	for j := 0; j < i; j++ {
		lo += s.fields[j].ncomp()
	}
	return lo, lo + s.fields[i].ncomp()
}

// PathElem is a step from an allocation root to an interior location.
type PathElem struct {
	field int // >= 0: struct field index
	idx   T   // when field < 0: array index term
}

// PtrInfo describes pointers that are not plain "reference to a whole heap
// object": pointers to tracked local cells and interior pointers.
type PtrInfo struct {
	cell *Cell
	path []PathElem
	root *Shape // shape of the allocation root (cell or heap object)
}

// FuncAlt is one possible target of a function value.
type FuncAlt struct {
	cond     T
	fn       *ssa.Function
	bindings []Val
	bound    *Val // receiver for bound method closures
	builtin  string
}

type Val struct {
	sh  *Shape
	ts  []T
	ptr *PtrInfo
	fns []FuncAlt
}

func (v Val) t() T {
	if len(v.ts) != 1 {
		unsupp("internal: scalar access to %d-component value of %s", len(v.ts), v.sh.key)
	}
	return v.ts[0]
}

func mkInt(sh *Shape, t T) Val   { return Val{sh: sh, ts: []T{t}} }
func mkBool(sh *Shape, t T) Val  { return Val{sh: sh, ts: []T{t}} }
func (v Val) strArr() T          { return v.ts[0] }
func (v Val) strOff() T          { return v.ts[1] }
func (v Val) strLen() T          { return v.ts[2] }
func (v Val) slRef() T           { return v.ts[0] }
func (v Val) slOff() T           { return v.ts[1] }
func (v Val) slLen() T           { return v.ts[2] }
func (v Val) slCap() T           { return v.ts[3] }
func (v Val) ifTyp() T           { return v.ts[0] }
func (v Val) ifBox() T           { return v.ts[1] }
func mkStr(sh *Shape, a, o, n T) Val { return Val{sh: sh, ts: []T{a, o, n}} }

// field extracts field i of a struct/tuple value.
func (v Val) field(i int) Val {
	lo, hi := v.sh.fieldRange(i)
	out := Val{sh: v.sh.fields[i], ts: v.ts[lo:hi]}
	return out
}

// withField returns a copy of v with field i replaced.
func (v Val) withField(i int, f Val) Val {
	lo, hi := v.sh.fieldRange(i)
	ts := append([]T{}, v.ts[:lo]...)
	ts = append(ts, f.ts...)
	ts = append(ts, v.ts[hi:]...)
	return Val{sh: v.sh, ts: ts}
}

// arrayGet reads element i of an array value.
func (v Val) arrayGet(i T) Val {
	ts := make([]T, len(v.ts))
	for k := range v.ts {
		ts[k] = sel(v.ts[k], i)
	}
	return Val{sh: v.sh.elem, ts: ts}
}

func (v Val) arraySet(i T, e Val) Val {
	ts := make([]T, len(v.ts))
	for k := range v.ts {
		ts[k] = store(v.ts[k], i, e.ts[k])
	}
	return Val{sh: v.sh, ts: ts}
}

// freshVal declares fresh constants for every component.
func freshVal(d *Decls, sh *Shape, hint string) Val {
	so := sh.sorts()
	ts := make([]T, len(so))
	for i, s := range so {
		ts[i] = d.Fresh(hint, s)
	}
	return Val{sh: sh, ts: ts}
}

// zeroVal is Go's zero value of the shape.
func zeroVal(sh *Shape) Val {
	var ts []T
	var zero func(s *Shape) []T
	zero = func(s *Shape) []T {
		switch s.kind {
		case KInt, KOpaque, KPtr, KMap, KFunc, KChan:
			return []T{"0"}
		case KBool:
			return []T{"false"}
		case KStr:
			return []T{emptyArr, "0", "0"}
		case KSlice:
			return []T{"0", "0", "0", "0"}
		case KIface:
			return []T{"0", "0"}
		case KArr:
			var out []T
			es := s.elem.sorts()
			for i, z := range zero(s.elem) {
				out = append(out, fmt.Sprintf("((as const %s) %s)", arrSort(es[i]), z))
			}
			return out
		case KStruct, KTuple:
			var out []T
			for _, f := range s.fields {
				out = append(out, zero(f)...)
			}
			return out
		}
		return nil
	}
	ts = zero(sh)
	return Val{sh: sh, ts: ts}
}

const emptyArr = "((as const (Array Int Int)) 0)"

func iteVal(c T, a, b Val) Val {
	if c == "true" {
		return a
	}
	if c == "false" {
		return b
	}
	if len(a.ts) != len(b.ts) {
		unsupp("internal: ite over different shapes %s / %s", a.sh.key, b.sh.key)
	}
	out := Val{sh: a.sh, ts: make([]T, len(a.ts))}
	for i := range a.ts {
		out.ts[i] = ite(c, a.ts[i], b.ts[i])
	}
	if a.ptr != nil || b.ptr != nil {
		if !samePtrInfo(a.ptr, b.ptr) {
			unsupp("merge of different interior/cell pointers")
		}
		out.ptr = a.ptr
	}
	if len(a.fns) > 0 || len(b.fns) > 0 {
		out.fns = mergeAlts(c, a.fns, b.fns)
	}
	return out
}

// mergeAlts joins two sets of possible call targets; a target present on
// both sides keeps one entry.
func mergeAlts(c T, as, bs []FuncAlt) []FuncAlt {
	sameTarget := func(x, y FuncAlt) bool {
		if x.fn != y.fn || x.builtin != y.builtin || len(x.bindings) != len(y.bindings) || (x.bound == nil) != (y.bound == nil) {
			return false
		}
		for i := range x.bindings {
			if !sameVal(x.bindings[i], y.bindings[i]) {
				return false
			}
		}
		if x.bound != nil && !sameVal(*x.bound, *y.bound) {
			return false
		}
		return true
	}
	var out []FuncAlt
	used := make([]bool, len(bs))
	for _, x := range as {
		matched := false
		for j, y := range bs {
			if !used[j] && sameTarget(x, y) {
				used[j] = true
				matched = true
				nx := x
				if x.cond == y.cond {
					nx.cond = x.cond
				} else {
					nx.cond = ite(c, x.cond, y.cond)
				}
				out = append(out, nx)
				break
			}
		}
		if !matched {
			nx := x
			nx.cond = and(c, x.cond)
			out = append(out, nx)
		}
	}
	for j, y := range bs {
		if !used[j] {
			ny := y
			ny.cond = and(not(c), y.cond)
			out = append(out, ny)
		}
	}
	return out
}

func samePtrInfo(a, b *PtrInfo) bool {
	if a == nil || b == nil {
		return a == b
	}
	if a.cell != b.cell || len(a.path) != len(b.path) {
		return false
	}
	for i := range a.path {
		if a.path[i] != b.path[i] {
			return false
		}
	}
	return true
}

func sameVal(a, b Val) bool {
	if len(a.ts) != len(b.ts) || !samePtrInfo(a.ptr, b.ptr) || len(a.fns) != len(b.fns) {
		return false
	}
	for i := range a.ts {
		if a.ts[i] != b.ts[i] {
			return false
		}
	}
	for i := range a.fns {
		if a.fns[i].fn != b.fns[i].fn || a.fns[i].cond != b.fns[i].cond {
			return false
		}
	}
	return true
}

// ---------------------------------------------------------------------------
// Integer types

type intInfo struct {
	bits   uint
	signed bool
}

func intInfoOf(t types.Type) (intInfo, bool) {
	b, ok := t.Underlying().(*types.Basic)
	if !ok {
		return intInfo{}, false
	}
	switch b.Kind() {
	case types.Int, types.Int64:
		return intInfo{64, true}, true
	case types.Int8:
		return intInfo{8, true}, true
	case types.Int16:
		return intInfo{16, true}, true
	case types.Int32:
		return intInfo{32, true}, true
	case types.Uint, types.Uint64, types.Uintptr:
		return intInfo{64, false}, true
	case types.Uint8:
		return intInfo{8, false}, true
	case types.Uint16:
		return intInfo{16, false}, true
	case types.Uint32:
		return intInfo{32, false}, true
	case types.UntypedInt, types.UntypedRune:
		return intInfo{64, true}, true
	case types.UnsafePointer:
		return intInfo{64, false}, true
	}
	return intInfo{}, false
}

func (ii intInfo) min() *big.Int {
	if !ii.signed {
		return big.NewInt(0)
	}
	return new(big.Int).Neg(pow2(ii.bits - 1))
}

func (ii intInfo) max() *big.Int {
	if !ii.signed {
		return new(big.Int).Sub(pow2(ii.bits), big.NewInt(1))
	}
	return new(big.Int).Sub(pow2(ii.bits-1), big.NewInt(1))
}

// inRange is the type invariant of an integer value.
func (ii intInfo) inRange(t T) T {
	return and(le(numBig(ii.min()), t), le(t, numBig(ii.max())))
}

// wrap normalises an arbitrary mathematical integer into the type.
func (ii intInfo) wrap(t T) T {
	if _, ok := isNumLit(t); ok {
		// constant folding for small literals that are in range
		v, _ := new(big.Int).SetString(t, 10)
		if v.Cmp(ii.min()) >= 0 && v.Cmp(ii.max()) <= 0 {
			return t
		}
	}
	m := numBig(pow2(ii.bits))
	if !ii.signed {
		return ite(ii.inRange(t), t, app("mod", t, m))
	}
	h := numBig(pow2(ii.bits - 1))
	return ite(ii.inRange(t), t, sub(app("mod", add(t, h), m), h))
}

// wrapOnce normalises the sum or difference of two values of the type: the
// mathematical result is off by at most one modulus, so the wrap-around is a
// case distinction and needs no mod (both operands satisfy the type's range
// invariant, like every value of the type).
func (ii intInfo) wrapOnce(t T) T {
	if _, ok := isNumLit(t); ok {
		return ii.wrap(t)
	}
	m := numBig(pow2(ii.bits))
	return ite(lt(numBig(ii.max()), t), sub(t, m), ite(lt(t, numBig(ii.min())), add(t, m), t))
}

// typeInvariant returns the conjunction of range facts for all components.
func typeInvariant(v Val) T {
	var cs []T
	var walk func(s *Shape, ts []T)
	walk = func(s *Shape, ts []T) {
		switch s.kind {
		case KInt:
			if ii, ok := intInfoOf(s.typ); ok {
				cs = append(cs, ii.inRange(ts[0]))
			}
		case KStr:
			cs = append(cs, le("0", ts[1]), le("0", ts[2]), le(ts[2], maxLen))
		case KSlice:
			cs = append(cs, le("0", ts[1]), le("0", ts[2]), le(ts[2], ts[3]), le(ts[3], maxLen), le("0", ts[0]),
				imp(eq(ts[0], "0"), and(eq(ts[2], "0"), eq(ts[3], "0"))))
		case KPtr, KMap:
			cs = append(cs, le("0", ts[0]))
		case KIface:
			cs = append(cs, le("0", ts[0]), imp(eq(ts[0], "0"), eq(ts[1], "0")))
		case KStruct, KTuple:
			o := 0
			for _, f := range s.fields {
				n := f.ncomp()
				walk(f, ts[o:o+n])
				o += n
			}
		}
	}
	walk(v.sh, v.ts)
	return and(cs...)
}

// maxLen is the assumed bound on every length (Go guarantees < 2^63; real
// allocations are far smaller). Keeping it at 2^62 makes index arithmetic
// provably overflow-free.
var maxLen = numBig(pow2(62))

func describeVal(v Val) string {
	return v.sh.key + "{" + strings.Join(v.ts, ", ") + "}"
}
