package main

import (
	"fmt"
	"path/filepath"
	"regexp"
	"strconv"
	"strings"
)

// Bounded stand-in for the encoder half of property C04: IPToReversedAddr
// builds its text through closures over a strings.Builder and a variadic
// helper loop, which the contracts do not reach (the positions of the text
// would need a prefix-sum over a slice of strings).  The real function is
// compared with the canonical PTR name written independently in the test, and
// the name is decoded back with the real IPFromReversedAddr (in the given
// case, upper-cased and with a trailing dot), over an enumeration of
// addresses.
const c04TestSrc = `package netutil_test

import (
	"fmt"
	"net"
	"net/netip"
	"strings"
	"testing"

	"github.com/AdguardTeam/golibs/netutil"
)

func govcCanon(a netip.Addr) string {
	var sb strings.Builder
	if a.Is4() || a.Is4In6() {
		b := a.Unmap().As4()
		for i := 3; i >= 0; i-- {
			fmt.Fprintf(&sb, "%%d.", b[i])
		}
		sb.WriteString("in-addr.arpa")
		return sb.String()
	}
	b := a.As16()
	for i := 15; i >= 0; i-- {
		fmt.Fprintf(&sb, "%%x.%%x.", b[i]&0xf, b[i]>>4)
	}
	sb.WriteString("ip6.arpa")
	return sb.String()
}

func TestGovcReplay(t *testing.T) {
	full := %v
	cases, fails := 0, 0
	report := func(format string, args ...any) {
		fails++
		if fails <= 8 {
			fmt.Printf("GOVC-BOUNDED-FAIL "+format+"\n", args...)
		}
	}
	check := func(ip net.IP) {
		cases++
		a, ok := netip.AddrFromSlice(ip)
		got, err := netutil.IPToReversedAddr(ip)
		if !ok {
			if err == nil {
				report("IPToReversedAddr(%%v) accepted a %%d-byte IP", []byte(ip), len(ip))
			}
			return
		}
		want := govcCanon(a)
		if err != nil || got != want {
			report("IPToReversedAddr(%%v) = %%q, %%v; want %%q", ip, got, err, want)
			return
		}
		for _, name := range []string{got, got + ".", strings.ToUpper(got), strings.ToUpper(got) + "."} {
			back, err := netutil.IPFromReversedAddr(name)
			if err != nil || back != a.Unmap() {
				report("IPFromReversedAddr(%%q) = %%v, %%v; want %%v", name, back, err, a.Unmap())
				return
			}
		}
	}
	v4vals := []byte{0, 1, 9, 10, 99, 100, 199, 255}
	for _, b0 := range v4vals {
		for _, b1 := range v4vals {
			for _, b2 := range v4vals {
				for _, b3 := range v4vals {
					check(net.IP{b0, b1, b2, b3})
					if full || (b0 == b1 && b2 == b3) {
						check(net.IP{0, 0, 0, 0, 0, 0, 0, 0, 0, 0, 0xff, 0xff, b0, b1, b2, b3})
					}
				}
			}
		}
	}
	v6vals := []byte{0x00, 0x01, 0x0f, 0x10, 0xf0, 0xa5, 0xff}
	for pos := 0; pos < 16; pos++ {
		for _, v := range v6vals {
			for _, fill := range []byte{0x00, 0x12, 0xff} {
				ip := make(net.IP, 16)
				for i := range ip {
					ip[i] = fill
				}
				ip[pos] = v
				check(ip)
			}
		}
	}
	// a cheap pseudo-random sweep
	x := uint64(%d)
	n := 2000
	if full {
		n = 200000
	}
	for i := 0; i < n; i++ {
		ip := make(net.IP, 16)
		for j := range ip {
			x = x*6364136223846793005 + 1442695040888963407
			ip[j] = byte(x >> 33)
		}
		check(ip)
	}
	for _, l := range []int{0, 1, 3, 5, 15, 17} {
		check(make(net.IP, l))
	}
	fmt.Printf("GOVC-BOUNDED cases=%%d accepted=%%d failures=%%d\n", cases, cases, fails)
}
`

func c04Bounded(eng *Engine, tier string, seed int64) *BoundedResult {
	full := tier == "thorough"
	src := fmt.Sprintf(c04TestSrc, full, 88172645463325252+seed)
	out := runHarness(repoDir(), filepath.Join(repoDir(), "netutil"), src)
	res := &BoundedResult{
		What:  "IPToReversedAddr compared, on the real code, with the canonical PTR name (RFC 1035 s3.5 / RFC 3596 s2.5, IPv4-mapped as IPv4) written independently in the test, and decoded back with the real IPFromReversedAddr in four spellings (as is, trailing dot, upper case, both)",
		Bound: fmt.Sprintf("IPv4 addresses with octets from {0,1,9,10,99,100,199,255} and their IPv4-mapped forms, IPv6 addresses varying one byte over seven values on three backgrounds, a pseudo-random sweep (full=%v), wrong-length slices", full),
	}
	sum := regexp.MustCompile(`GOVC-BOUNDED cases=(\d+) accepted=(\d+) failures=(\d+)`).FindStringSubmatch(out)
	if sum == nil {
		res.Failures = append(res.Failures, "harness did not complete: "+truncate(out, 300))
		return res
	}
	res.Cases, _ = strconv.Atoi(sum[1])
	res.Nontrivial = res.Cases
	for _, l := range strings.Split(out, "\n") {
		if strings.HasPrefix(l, "GOVC-BOUNDED-FAIL ") {
			res.Failures = append(res.Failures, strings.TrimPrefix(l, "GOVC-BOUNDED-FAIL "))
		}
	}
	if n, _ := strconv.Atoi(sum[3]); n > 0 && len(res.Failures) == 0 {
		res.Failures = append(res.Failures, fmt.Sprintf("%d disagreements", n))
	}
	return res
}
