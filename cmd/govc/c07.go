package main

import (
	"fmt"
	"path/filepath"
)

// Bounded stand-in for the round-trip clause of property C07 (MarshalText of
// an accepted record re-parses to an equal record): the positions of the names
// in the marshalled text are not under contract.  Lines are built from small
// alphabets of addresses, names, separators and comments; every accepted
// record is marshalled and parsed again on the real code.
const c07TestSrc = `package hostsfile_test

import (
	"fmt"
	"net/netip"
	"slices"
	"strings"
	"testing"

	"github.com/AdguardTeam/golibs/hostsfile"
	"github.com/AdguardTeam/golibs/netutil"
)

// govcWellFormed: the grammar of the property text: after removing a '#'
// comment, space/tab separated fields, an address accepted by netip.ParseAddr
// and one or more names accepted by ValidateDomainName.
func govcWellFormed(line string) (addr netip.Addr, names []string, ok bool) {
	if i := strings.IndexByte(line, '#'); i >= 0 {
		line = line[:i]
	}
	f := strings.FieldsFunc(line, func(r rune) bool { return r == ' ' || r == '\t' })
	if len(f) < 2 {
		return addr, nil, false
	}
	addr, err := netip.ParseAddr(f[0])
	if err != nil {
		return addr, nil, false
	}
	for _, n := range f[1:] {
		if netutil.ValidateDomainName(n) != nil {
			return addr, nil, false
		}
	}
	return addr, f[1:], true
}

func TestGovcReplay(t *testing.T) {
	addrs := []string{"1.2.3.4", "::1", "::ffff:1.2.3.4", "fe80::1%%eth0", "2001:db8::1", "256.1.1.1", "host"}
	names := []string{"a", "a.example", "A.Example", "xn--e1afmkfd.example", "_srv.example", "a.123", "-x", "123", "a\vb.example", "a.example\fb"}
	seps := []string{" ", "\t", "  ", " \t "}
	tails := []string{"", " ", " # comment", "#c", "\t#"}
	maxNames := %d
	cases, accepted, fails := 0, 0, 0
	var rec func(line string, n int)
	check := func(line string) {
		cases++
		r := &hostsfile.Record{}
		err := r.UnmarshalText([]byte(line))
		wa, wn, wok := govcWellFormed(line)
		if (err == nil) != wok || (wok && (r.Addr != wa || !slices.Equal(r.Names, wn))) {
			fails++
			if fails <= 8 {
				fmt.Printf("GOVC-BOUNDED-FAIL UnmarshalText(%%q) = {%%v %%q} err=%%v; the grammar says well-formed=%%v {%%v %%q}\n", line, r.Addr, r.Names, err, wok, wa, wn)
			}
		}
		if err != nil {
			return
		}
		accepted++
		b, err := r.MarshalText()
		if err != nil {
			fails++
			fmt.Printf("GOVC-BOUNDED-FAIL MarshalText of the record parsed from %%q: %%v\n", line, err)
			return
		}
		r2 := &hostsfile.Record{}
		if err = r2.UnmarshalText(b); err != nil || r2.Addr != r.Addr || !slices.Equal(r2.Names, r.Names) {
			fails++
			if fails <= 8 {
				fmt.Printf("GOVC-BOUNDED-FAIL %%q -> {%%v %%q} -> %%q -> {%%v %%q} err=%%v\n", line, r.Addr, r.Names, b, r2.Addr, r2.Names, err)
			}
		}
	}
	rec = func(line string, n int) {
		for _, tl := range tails {
			check(line + tl)
		}
		if n == maxNames {
			return
		}
		for _, sp := range seps {
			for _, nm := range names {
				rec(line+sp+nm, n+1)
			}
		}
	}
	for _, lead := range []string{"", " ", "\t"} {
		for _, a := range addrs {
			rec(lead+a, 0)
		}
	}
	fmt.Printf("GOVC-BOUNDED cases=%%d accepted=%%d failures=%%d\n", cases, accepted, fails)
}
`

func c07Bounded(eng *Engine, tier string, seed int64) *BoundedResult {
	maxNames := 2
	if tier == "thorough" {
		maxNames = 3
	}
	out := runHarness(repoDir(), filepath.Join(repoDir(), "hostsfile"), fmt.Sprintf(c07TestSrc, maxNames))
	res := &BoundedResult{
		What:  "for every line of the enumeration: Record.UnmarshalText accepts it iff a reference reading of the grammar (fields separated by space/tab after the comment, netip.ParseAddr, ValidateDomainName) calls it well-formed, with that address and those names; for every accepted line: MarshalText succeeds and its output parses to a record with the same address and the same names (real code)",
		Bound: fmt.Sprintf("lines of an address (7 forms incl. zoned, IPv4-mapped, invalid) followed by at most %d names (10 forms incl. upper case, punycode, invalid, form feed / vertical tab inside) with 4 kinds of separators, 3 leading and 5 trailing forms (spaces, tabs, comments)", maxNames),
	}
	parseBounded(out, res)
	return res
}
