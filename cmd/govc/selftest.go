package main

// Must-fail / must-pass corpus: every patch in selftest/mutants must make the
// named property's check report a VIOLATION; every patch in
// selftest/equivalents must leave it silent.  Patches are applied to scratch
// copies of /repo outside /repo and /verif, removed afterwards.

import (
	"encoding/json"
	"fmt"
	"os"
	"os/exec"
	"path/filepath"
	"sort"
	"strings"
	"sync"
)

func outDirBase() string {
	if d := os.Getenv("GOVC_OUTDIR"); d != "" {
		return d
	}
	return verifDir()
}

func cmdSelftest(args []string) int {
	filter := ""
	if len(args) > 0 {
		filter = args[0]
	}
	type tc struct {
		patch    string
		prop     string
		mustFail bool
		benign   bool // behaviour-preserving refactoring: must not be reported as a violation (undecided is acceptable)
	}
	var cases []tc
	knownMiss := map[string]bool{}
	for _, kind := range []string{"mutants", "equivalents", "benign"} {
		files, _ := filepath.Glob(filepath.Join(verifDir(), "selftest", kind, "*.patch"))
		sort.Strings(files)
		for _, f := range files {
			base := filepath.Base(f)
			prop := strings.SplitN(base, "_", 2)[0]
			if filter != "" && !strings.Contains(base, filter) {
				continue
			}
			cases = append(cases, tc{f, prop, kind == "mutants", kind == "benign"})
		}
	}
	// independently produced property-breaking changes (seeded/<prop>-<k>/patch.diff)
	seeded, _ := filepath.Glob(filepath.Join(verifDir(), "seeded", "*", "patch.diff"))
	sort.Strings(seeded)
	for _, f := range seeded {
		name := filepath.Base(filepath.Dir(f))
		prop := strings.SplitN(name, "-", 2)[0]
		if filter != "" && !strings.Contains("seeded/"+name, filter) {
			continue
		}
		// a seed recorded as not detected (outside the claim) is not expected to fail
		expect := true
		if mb, err := os.ReadFile(filepath.Join(filepath.Dir(f), "meta.json")); err == nil {
			var meta struct {
				Detected *bool  `json:"detected"`
				Obsolete string `json:"obsolete"`
			}
			if json.Unmarshal(mb, &meta) == nil && meta.Obsolete != "" {
				// a later fix of the repository removed the code the change
				// relied on: it no longer breaks the property
				continue
			}
			if json.Unmarshal(mb, &meta) == nil && meta.Detected != nil && !*meta.Detected {
				expect = false
				knownMiss[f] = true
			}
		}
		cases = append(cases, tc{f, prop, expect, false})
	}
	self, _ := os.Executable()
	bad := 0
	var mu sync.Mutex
	sem := make(chan struct{}, 4)
	var wg sync.WaitGroup
	for _, c := range cases {
		wg.Add(1)
		go func(c tc) {
			defer wg.Done()
			sem <- struct{}{}
			defer func() { <-sem }()
			scratch, err := os.MkdirTemp("", "govc-selftest")
			if err != nil {
				return
			}
			defer os.RemoveAll(scratch)
			repo := filepath.Join(scratch, "repo")
			out := filepath.Join(scratch, "out")
			os.MkdirAll(out, 0o755)
			if b, err := exec.Command("cp", "-a", repoDir(), repo).CombinedOutput(); err != nil {
				fmt.Printf("selftest %s: copy failed: %s\n", filepath.Base(c.patch), b)
				return
			}
			ap := exec.Command("git", "apply", "--whitespace=nowarn", c.patch)
			ap.Dir = repo
			if b, err := ap.CombinedOutput(); err != nil {
				mu.Lock()
				fmt.Printf("SELFTEST-STALE %s: patch does not apply: %s\n", filepath.Base(c.patch), strings.TrimSpace(string(b)))
				bad++
				mu.Unlock()
				return
			}
			cmd := exec.Command(self, "check", c.prop, "--tier", "quick")
			cmd.Env = append(os.Environ(), "GOVC_REPO="+repo, "GOVC_OUTDIR="+out, "GOVC_UNDECIDED_EXIT=2")
			if c.mustFail {
				cmd.Env = append(cmd.Env, "GOVC_BUDGET=10")
			}
			b, _ := cmd.CombinedOutput()
			code := cmd.ProcessState.ExitCode()
			viol := strings.Contains(string(b), "VIOLATION property="+c.prop)
			mu.Lock()
			defer mu.Unlock()
			switch {
			case c.mustFail && code == 1 && viol:
				first := ""
				for _, l := range strings.Split(string(b), "\n") {
					if strings.HasPrefix(l, "  obligation ") {
						first = strings.TrimSpace(l)
						break
					}
				}
				label := filepath.Base(c.patch)
				if label == "patch.diff" {
					label = "seeded/" + filepath.Base(filepath.Dir(c.patch))
				}
				fmt.Printf("ok   must-fail %-55s %s\n", label, first)
			case !c.mustFail && knownMiss[c.patch]:
				if code == 1 && viol {
					fmt.Printf("note recorded miss is now detected: %s\n", c.patch)
				} else {
					fmt.Printf("miss (recorded, outside the claim) seeded/%s\n", filepath.Base(filepath.Dir(c.patch)))
				}
			case !c.mustFail && code == 0 && !viol:
				fmt.Printf("ok   must-pass %s\n", filepath.Base(c.patch))
			case c.benign && code == 2 && !viol:
				fmt.Printf("ok   no-alarm (undecided) %s\n", filepath.Base(c.patch))
			default:
				bad++
				fmt.Printf("BAD  %s (mustFail=%v exit=%d)\n%s\n", c.patch, c.mustFail, code, indent(truncate(string(b), 1500)))
			}
		}(c)
	}
	wg.Wait()
	if bad > 0 {
		fmt.Printf("selftest: %d of %d cases misbehaved\n", bad, len(cases))
		return 1
	}
	fmt.Printf("selftest: all %d cases behaved\n", len(cases))
	return 0
}

func indent(s string) string { return "    " + strings.ReplaceAll(s, "\n", "\n    ") }
