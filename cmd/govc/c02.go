package main

import (
	"fmt"
	"path/filepath"
	"regexp"
	"strconv"
	"strings"
)

// Bounded stand-in for the IP halves of property C02: the allocation-free
// validators are compared with the real net/netip parsers, on the real code,
// over (a) every string over a small alphabet up to a length bound and (b) an
// enumeration of IPv6 skeletons (field count, ellipsis position, one varied
// field, IPv4 tail, zone, port/bracket forms).  This is NOT a proof: the
// IPv6 text grammar was not brought under contract.
const c02TestSrc = `package netutil_test

import (
	"fmt"
	"net/netip"
	"strings"
	"testing"

	"github.com/AdguardTeam/golibs/netutil"
)

func TestGovcReplay(t *testing.T) {
	maxLen := %d
	full := %v
	cases, accepted, fails := 0, 0, 0
	check := func(s string) {
		cases++
		_, err := netip.ParseAddr(s)
		if err == nil {
			accepted++
		}
		if got := netutil.IsValidIPString(s); got != (err == nil) {
			fails++
			if fails <= 8 {
				fmt.Printf("GOVC-BOUNDED-FAIL IsValidIPString %%q got=%%v parse_ok=%%v\n", s, got, err == nil)
			}
		}
		_, err = netip.ParseAddrPort(s)
		if err == nil {
			accepted++
		}
		if got := netutil.IsValidIPPortString(s); got != (err == nil) {
			fails++
			if fails <= 8 {
				fmt.Printf("GOVC-BOUNDED-FAIL IsValidIPPortString %%q got=%%v parse_ok=%%v\n", s, got, err == nil)
			}
		}
	}
	// (a) exhaustive over a small alphabet
	alphabet := []byte("019afg:.%%[]")
	buf := make([]byte, 0, maxLen)
	var rec func(d int)
	rec = func(d int) {
		check(string(buf))
		if d == maxLen {
			return
		}
		for _, c := range alphabet {
			buf = append(buf, c)
			rec(d + 1)
			buf = buf[:len(buf)-1]
		}
	}
	rec(0)
	// (b) IPv6 skeletons
	varied := []string{"1", "", "0", "ffff", "FFFF", "12345", "g", "1.2.3.4", "1.2.3", "256.1.1.1", "01.2.3.4"}
	tails := []string{"", "1.2.3.4", "255.255.255.255", "1.2.3.256"}
	zones := []string{"", "%%e", "%%"}
	ports := []string{"", ":80", ":0", ":65535", ":65536", ":080", ":", ":+1", ":8x", ":99999999999999999999"}
	if !full {
		varied = varied[:8]
		tails = tails[:2]
		ports = ports[:6]
	}
	for k := 0; k <= 9; k++ {
		for ell := -1; ell <= k; ell++ {
			for vi := 0; vi < k || vi == 0; vi++ {
				for _, vf := range varied {
					var sb strings.Builder
					for f := 0; f < k; f++ {
						if f == ell {
							sb.WriteString("::")
						} else if f > 0 {
							sb.WriteString(":")
						}
						if f == vi {
							sb.WriteString(vf)
						} else {
							sb.WriteString("1")
						}
					}
					if ell == k {
						sb.WriteString("::")
					}
					base := sb.String()
					for _, tl := range tails {
						b2 := base
						if tl != "" {
							if b2 != "" && !strings.HasSuffix(b2, ":") {
								b2 += ":"
							}
							b2 += tl
						}
						for _, z := range zones {
							for _, p := range ports {
								check(b2 + z + p)
								if p != "" {
									check("[" + b2 + z + "]" + p)
								}
							}
						}
					}
				}
			}
		}
	}
	fmt.Printf("GOVC-BOUNDED cases=%%d accepted=%%d failures=%%d\n", cases, accepted, fails)
}
`

func c02Bounded(eng *Engine, tier string, seed int64) *BoundedResult {
	maxLen, full := 5, false
	if tier == "thorough" {
		maxLen, full = 6, true
	}
	src := fmt.Sprintf(c02TestSrc, maxLen, full)
	out := runHarness(repoDir(), filepath.Join(repoDir(), "netutil"), src)
	res := &BoundedResult{
		What:  "IsValidIPString / IsValidIPPortString compared with net/netip.ParseAddr / ParseAddrPort on the real code",
		Bound: fmt.Sprintf("all strings over the alphabet 019afg:.%%[] up to length %d, plus IPv6 skeletons with 0..9 fields, every ellipsis position, one varied field, IPv4 tails, zones, ports and brackets (full=%v)", maxLen, full),
	}
	sum := regexp.MustCompile(`GOVC-BOUNDED cases=(\d+) accepted=(\d+) failures=(\d+)`).FindStringSubmatch(out)
	if sum == nil {
		res.Failures = append(res.Failures, "harness did not complete: "+truncate(out, 300))
		return res
	}
	res.Cases, _ = strconv.Atoi(sum[1])
	res.Nontrivial, _ = strconv.Atoi(sum[2])
	for _, l := range strings.Split(out, "\n") {
		if strings.HasPrefix(l, "GOVC-BOUNDED-FAIL ") {
			res.Failures = append(res.Failures, strings.TrimPrefix(l, "GOVC-BOUNDED-FAIL "))
		}
	}
	if n, _ := strconv.Atoi(sum[3]); n > 0 && len(res.Failures) == 0 {
		res.Failures = append(res.Failures, fmt.Sprintf("%d disagreements", n))
	}
	return res
}

// parseBounded fills a BoundedResult from the GOVC-BOUNDED lines of a harness run.
func parseBounded(out string, res *BoundedResult) {
	sum := regexp.MustCompile(`GOVC-BOUNDED cases=(\d+) accepted=(\d+) failures=(\d+)`).FindStringSubmatch(out)
	if sum == nil {
		res.Failures = append(res.Failures, "harness did not complete: "+truncate(out, 300))
		return
	}
	res.Cases, _ = strconv.Atoi(sum[1])
	res.Nontrivial, _ = strconv.Atoi(sum[2])
	for _, l := range strings.Split(out, "\n") {
		if strings.HasPrefix(l, "GOVC-BOUNDED-FAIL ") {
			res.Failures = append(res.Failures, strings.TrimPrefix(l, "GOVC-BOUNDED-FAIL "))
		}
	}
	if n, _ := strconv.Atoi(sum[3]); n > 0 && len(res.Failures) == 0 {
		res.Failures = append(res.Failures, fmt.Sprintf("%d disagreements", n))
	}
}
