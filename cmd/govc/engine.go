package main

// Engine: loading /repo, contracts, effect analysis, function verification
// and parallel discharge.

import (
	"fmt"
	"go/token"
	"go/types"
	"os"
	"path/filepath"
	"runtime/debug"
	"sort"
	"strings"
	"sync"
	"time"

	"golang.org/x/tools/go/packages"
	"golang.org/x/tools/go/ssa"
	"golang.org/x/tools/go/ssa/ssautil"
)

type Engine struct {
	repo            string
	prog            *ssa.Program
	pkgs            []*packages.Package
	ssaPkgs         map[string]*ssa.Package
	typPkgs         map[string]*types.Package
	contracts       *ContractSet
	tids            *typeIDs
	funcIDs         map[*ssa.Function]int
	globalIDs       map[*ssa.Global]int
	prelude         string
	requireVariants bool
	sequential      bool // monitors do not forget protected state at Lock (single-goroutine histories)
	noContentIDExt  bool // see PropertyDef.NoContentIDExt
	onlySafe        bool // thin mode: only clauses labelled safe_* are checked and assumed
	inlineExternal  map[string]bool
	effectsMemo     map[*ssa.Function]*effects
	embKeys         map[string]bool
	funcIndex       map[string]*ssa.Function
	eventIDs        map[string]int
	mu              sync.Mutex
	loadSeconds     float64
	contractFiles   []string
}

func newEngine(repo string) *Engine {
	return &Engine{repo: repo, ssaPkgs: map[string]*ssa.Package{}, typPkgs: map[string]*types.Package{},
		contracts: newContractSet(), tids: &typeIDs{ids: map[string]int{}}, funcIDs: map[*ssa.Function]int{},
		globalIDs: map[*ssa.Global]int{}, inlineExternal: map[string]bool{"errors.Unwrap": true}, effectsMemo: map[*ssa.Function]*effects{}}
}

func goEnv() []string {
	env := os.Environ()
	var out []string
	for _, e := range env {
		if strings.HasPrefix(e, "GOFLAGS=") || strings.HasPrefix(e, "GOPROXY=") || strings.HasPrefix(e, "GOTOOLCHAIN=") || strings.HasPrefix(e, "GOSUMDB=") {
			continue
		}
		out = append(out, e)
	}
	return append(out, "GOFLAGS=-mod=mod", "GOPROXY=off", "GOTOOLCHAIN=auto")
}

// load loads the given package patterns of the repository with the verif tag
// and builds naive-form SSA.
func (e *Engine) load(patterns ...string) error {
	start := time.Now()
	cfg := &packages.Config{Mode: packages.LoadAllSyntax, Dir: e.repo, BuildFlags: []string{"-tags=verif"}, Env: goEnv()}
	pkgs, err := packages.Load(cfg, patterns...)
	if err != nil {
		return err
	}
	var errs []string
	packages.Visit(pkgs, nil, func(p *packages.Package) {
		for _, pe := range p.Errors {
			errs = append(errs, pe.Error())
		}
	})
	if len(errs) > 0 {
		return fmt.Errorf("package errors: %s", strings.Join(errs, "; "))
	}
	prog, _ := ssautil.AllPackages(pkgs, ssa.NaiveForm|ssa.GlobalDebug)
	prog.Build()
	e.prog = prog
	e.pkgs = pkgs
	for _, p := range prog.AllPackages() {
		e.ssaPkgs[p.Pkg.Path()] = p
		e.typPkgs[p.Pkg.Path()] = p.Pkg
	}
	// contracts from the contracts_verif.go files of every module package in
	// the import graph (callers use the contracts of the packages they import)
	var modPkgs []*packages.Package
	packages.Visit(pkgs, nil, func(p *packages.Package) {
		if strings.HasPrefix(p.PkgPath, modulePrefix) {
			modPkgs = append(modPkgs, p)
		}
	})
	sort.Slice(modPkgs, func(i, j int) bool { return modPkgs[i].PkgPath < modPkgs[j].PkgPath })
	for _, p := range modPkgs {
		for _, f := range p.GoFiles {
			if filepath.Base(f) != "contracts_verif.go" {
				continue
			}
			src, err := os.ReadFile(f)
			if err != nil {
				return err
			}
			if err := e.contracts.parseContractText(extractContractBlocks(string(src)), p.PkgPath, f); err != nil {
				return err
			}
			e.contractFiles = append(e.contractFiles, f)
		}
	}
	embeddedTable = e.contracts.Embedded
	e.loadSeconds = time.Since(start).Seconds()
	return nil
}

// loadSpecs reads assumed contracts for external functions.
func (e *Engine) loadSpecs(dir string) error {
	files, _ := filepath.Glob(filepath.Join(dir, "*.spec"))
	sort.Strings(files)
	for _, f := range files {
		src, err := os.ReadFile(f)
		if err != nil {
			return err
		}
		if err := e.contracts.parseContractText(string(src), "", f); err != nil {
			return err
		}
	}
	return nil
}

// useClause says whether a contract clause takes part in this run.
func (e *Engine) useClause(c Clause) bool {
	if strings.HasPrefix(c.Label, "seq_") && !e.sequential {
		return false // clause about single-goroutine histories only
	}
	return !e.onlySafe || strings.HasPrefix(c.Label, "safe")
}

func (e *Engine) pkgOf(path string) *types.Package { return e.typPkgs[path] }

func (e *Engine) allPackages() []*types.Package {
	var out []*types.Package
	for _, k := range sortedKeys(e.typPkgs) {
		out = append(out, e.typPkgs[k])
	}
	return out
}

// embeddedHeapKeys: the shape keys of the types of separately addressed
// (embedded) fields; only objects of these types live at embedded addresses.
func (e *Engine) embeddedHeapKeys() map[string]bool {
	if e.embKeys != nil {
		return e.embKeys
	}
	e.embKeys = map[string]bool{}
	for k := range e.contracts.Embedded {
		i := strings.LastIndex(k, ".")
		j := strings.LastIndex(k[:i], ".")
		if i < 0 || j < 0 {
			continue
		}
		pkgPath, tn, fn := k[:j], k[j+1:i], k[i+1:]
		for _, p := range e.allPackages() {
			if p.Path() != pkgPath {
				continue
			}
			obj := p.Scope().Lookup(tn)
			if obj == nil {
				continue
			}
			if st, ok := obj.Type().Underlying().(*types.Struct); ok {
				for f := 0; f < st.NumFields(); f++ {
					if st.Field(f).Name() == fn {
						e.embKeys[shapeOf(st.Field(f).Type()).key] = true
					}
				}
			}
		}
	}
	return e.embKeys
}

func (e *Engine) specFor(fn *ssa.Function) *FuncSpec {
	k := funcKey(fn)
	if s, ok := e.contracts.Funcs[k]; ok {
		return s
	}
	return nil
}

func (e *Engine) funcID(fn *ssa.Function) int {
	e.mu.Lock()
	defer e.mu.Unlock()
	if id, ok := e.funcIDs[fn]; ok {
		return id
	}
	id := len(e.funcIDs) + 1
	e.funcIDs[fn] = id
	return id
}

// eventID numbers the interface methods that appear in the event log.
func (e *Engine) eventID(name string) int {
	e.mu.Lock()
	defer e.mu.Unlock()
	if e.eventIDs == nil {
		e.eventIDs = map[string]int{}
	}
	if id, ok := e.eventIDs[name]; ok {
		return id
	}
	id := len(e.eventIDs) + 1
	e.eventIDs[name] = id
	return id
}

func (e *Engine) globalID(g *ssa.Global) int {
	e.mu.Lock()
	defer e.mu.Unlock()
	if id, ok := e.globalIDs[g]; ok {
		return id
	}
	id := len(e.globalIDs) + 1
	e.globalIDs[g] = id
	return id
}

// lookupFunc finds a function or method by its contract key
// ("pkgpath.Name", "pkgpath.(*T).M").
func (e *Engine) lookupFunc(key string) *ssa.Function {
	if e.funcIndex == nil {
		e.funcIndex = map[string]*ssa.Function{}
		add := func(fn *ssa.Function) {
			if fn == nil || fn.Synthetic != "" {
				return
			}
			if fn.Origin() != nil && fn.Origin() != fn {
				return
			}
			k := funcKey(fn)
			if _, dup := e.funcIndex[k]; !dup {
				e.funcIndex[k] = fn
			}
		}
		for fn := range ssautil.AllFunctions(e.prog) {
			add(fn)
		}
		// methods of generic types are not enumerated by AllFunctions
		for _, p := range e.prog.AllPackages() {
			if !strings.HasPrefix(p.Pkg.Path(), modulePrefix) {
				continue
			}
			for _, m := range p.Members {
				t, ok := m.(*ssa.Type)
				if !ok {
					continue
				}
				n, ok := t.Type().(*types.Named)
				if !ok {
					continue
				}
				for i := 0; i < n.NumMethods(); i++ {
					add(e.prog.FuncValue(n.Method(i)))
				}
			}
		}
	}
	return e.funcIndex[key]
}

// ---------------------------------------------------------------------------
// Effects of instructions (what a loop may modify)

type effects struct {
	heaps     map[string]string
	allocates bool
	ptrParams bool // stores through pointer parameters / free variables
}

func rootAlloc(v ssa.Value) (*ssa.Alloc, bool) {
	for i := 0; i < 10; i++ {
		switch x := v.(type) {
		case *ssa.Alloc:
			return x, true
		case *ssa.FieldAddr:
			v = x.X
		case *ssa.IndexAddr:
			if _, isPtr := x.X.Type().Underlying().(*types.Pointer); !isPtr {
				return nil, false
			}
			v = x.X
		default:
			return nil, false
		}
	}
	return nil, false
}

// storeHeaps names the heaps a store through addr may touch.
func storeHeaps(addr ssa.Value, hs map[string]string) {
	switch x := addr.(type) {
	case *ssa.FieldAddr:
		// find the root struct and the component range of the field path
		var path []int
		var v ssa.Value = x
		for {
			fa, ok := v.(*ssa.FieldAddr)
			if !ok {
				break
			}
			path = append([]int{fa.Field}, path...)
			v = fa.X
		}
		if ia, ok := v.(*ssa.IndexAddr); ok {
			// element of array/slice of structs: whole element heaps
			storeHeaps(ia, hs)
			return
		}
		pt, ok := v.Type().Underlying().(*types.Pointer)
		if !ok {
			return
		}
		root := shapeOf(pt.Elem())
		lo, hi := 0, root.ncomp()
		sh := root
		for _, f := range path {
			if sh.kind != KStruct {
				break
			}
			flo, fhi := sh.fieldRange(f)
			lo, hi = lo+flo, lo+fhi
			sh = sh.fields[f]
		}
		for c := lo; c < hi; c++ {
			hs[heapName(root, c)] = heapSort(root, c)
		}
	case *ssa.IndexAddr:
		var elem types.Type
		switch t := x.X.Type().Underlying().(type) {
		case *types.Slice:
			elem = t.Elem()
		case *types.Pointer:
			if a, ok := t.Elem().Underlying().(*types.Array); ok {
				elem = a.Elem()
			}
		}
		if elem == nil {
			return
		}
		ash := &Shape{kind: KArr, elem: shapeOf(elem), n: -1}
		for c := 0; c < ash.ncomp(); c++ {
			hs[heapName(ash, c)] = heapSort(ash, c)
		}
	default:
		pt, ok := addr.Type().Underlying().(*types.Pointer)
		if !ok {
			return
		}
		sh := shapeOf(pt.Elem())
		for c := 0; c < sh.ncomp(); c++ {
			hs[heapName(sh, c)] = heapSort(sh, c)
		}
	}
}

func (e *Engine) instrEffects(fn *ssa.Function, in ssa.Instruction, tracked map[*ssa.Alloc]bool, as map[*ssa.Alloc]bool, rs map[*ssa.Range]bool, hs map[string]string, allocates *bool, depth int) {
	switch x := in.(type) {
	case *ssa.Store:
		if a, ok := rootAlloc(x.Addr); ok && (tracked == nil || tracked[a]) {
			if as != nil {
				as[a] = true
			}
			return
		}
		storeHeaps(x.Addr, hs)
	case *ssa.Next:
		if r, ok := x.Iter.(*ssa.Range); ok && rs != nil {
			rs[r] = true
		}
	case *ssa.Alloc:
		if tracked == nil || !tracked[x] {
			*allocates = true
			// zero-initialisation writes the object's heaps
			pt := x.Type().Underlying().(*types.Pointer)
			sh := shapeOf(pt.Elem())
			for c := 0; c < sh.ncomp(); c++ {
				hs[heapName(sh, c)] = heapSort(sh, c)
			}
		} else if as != nil {
			as[x] = true
		}
	case *ssa.MakeSlice:
		*allocates = true
		ash := &Shape{kind: KArr, elem: shapeOf(x.Type().Underlying().(*types.Slice).Elem()), n: -1}
		for c := 0; c < ash.ncomp(); c++ {
			hs[heapName(ash, c)] = heapSort(ash, c)
		}
	case *ssa.MakeMap, *ssa.MapUpdate:
		*allocates = true
		var mt types.Type
		if mm, ok := x.(*ssa.MakeMap); ok {
			mt = mm.Type()
		} else {
			mt = x.(*ssa.MapUpdate).Map.Type()
		}
		msh := shapeOf(mt)
		has, val, hasSort, valSorts, _ := mapHeaps(msh)
		hs[has[0]] = arrSort(hasSort)
		for c := range val {
			hs[val[c]] = arrSort(valSorts[c])
		}
		hs["ML|"+msh.key] = arrSort(sInt)
	case *ssa.MakeInterface:
		sh := shapeOf(x.X.Type())
		if len(sh.sorts()) != 1 || sh.kind == KBool {
			*allocates = true
			for c := 0; c < sh.ncomp(); c++ {
				hs[heapName(sh, c)] = heapSort(sh, c)
			}
		}
	case *ssa.Convert:
		if _, ok := x.Type().Underlying().(*types.Slice); ok {
			*allocates = true
			ash := &Shape{kind: KArr, elem: shapeOf(x.Type().Underlying().(*types.Slice).Elem()), n: -1}
			for c := 0; c < ash.ncomp(); c++ {
				hs[heapName(ash, c)] = heapSort(ash, c)
			}
		}
	case *ssa.Call:
		e.callEffects(fn, &x.Call, tracked, as, hs, allocates, depth)
	case *ssa.Defer:
		e.callEffects(fn, &x.Call, tracked, as, hs, allocates, depth)
	case *ssa.RunDefers:
		// deferred calls of this function
		for _, b := range fn.Blocks {
			for _, i2 := range b.Instrs {
				if d, ok := i2.(*ssa.Defer); ok {
					e.callEffects(fn, &d.Call, tracked, as, hs, allocates, depth)
				}
			}
		}
	}
}

func (e *Engine) callEffects(fn *ssa.Function, c *ssa.CallCommon, tracked map[*ssa.Alloc]bool, as map[*ssa.Alloc]bool, hs map[string]string, allocates *bool, depth int) {
	// pointers to tracked cells passed to a callee may be written by it
	markArgs := func() {
		for _, a := range c.Args {
			if al, ok := rootAlloc(a); ok && as != nil && (tracked == nil || tracked[al]) {
				as[al] = true
			}
		}
		if mc, ok := c.Value.(*ssa.MakeClosure); ok {
			for _, b := range mc.Bindings {
				if al, ok := rootAlloc(b); ok && as != nil {
					as[al] = true
				}
			}
		}
	}
	if b, ok := c.Value.(*ssa.Builtin); ok {
		switch b.Name() {
		case "append", "copy", "clear":
			*allocates = true
			if len(c.Args) > 0 {
				switch t := c.Args[0].Type().Underlying().(type) {
				case *types.Slice:
					ash := &Shape{kind: KArr, elem: shapeOf(t.Elem()), n: -1}
					for k := 0; k < ash.ncomp(); k++ {
						hs[heapName(ash, k)] = heapSort(ash, k)
					}
				case *types.Map:
					msh := shapeOf(t)
					has, val, hasSort, valSorts, _ := mapHeaps(msh)
					hs[has[0]] = arrSort(hasSort)
					for k := range val {
						hs[val[k]] = arrSort(valSorts[k])
					}
					hs["ML|"+msh.key] = arrSort(sInt)
				}
			}
		case "delete":
			msh := shapeOf(c.Args[0].Type())
			has, _, hasSort, _, _ := mapHeaps(msh)
			hs[has[0]] = arrSort(hasSort)
			hs["ML|"+msh.key] = arrSort(sInt)
		}
		return
	}
	markArgs()
	if c.IsInvoke() {
		// interface calls: per contract; modifies of pointer args handled by markArgs
		*allocates = true
		return
	}
	callee := c.StaticCallee()
	if callee == nil {
		// closure values held in cells: every closure made in this function
		// may be the target; only the captured variables a closure actually
		// writes (or passes on) count as modified
		for _, b := range fn.Blocks {
			for _, in := range b.Instrs {
				if mc, ok := in.(*ssa.MakeClosure); ok {
					cf := mc.Fn.(*ssa.Function)
					ef := e.effectsOf(cf, depth+1)
					for k, v := range ef.heaps {
						hs[k] = v
					}
					if ef.allocates {
						*allocates = true
					}
					written := freeVarsWritten(cf)
					for i, bd := range mc.Bindings {
						if i < len(cf.FreeVars) && !written[cf.FreeVars[i]] {
							continue
						}
						if al, ok := rootAlloc(bd); ok && as != nil {
							as[al] = true
						}
					}
				}
			}
		}
		return
	}
	spec := e.specFor(callee)
	if spec != nil && !spec.Inline {
		if !spec.Pure {
			*allocates = true
		}
		names := paramNames(callee, spec)
		for _, m := range spec.Modifies {
			e.modifiesHeaps(callee, spec, m, hs)
			// the location actually written is determined by the argument
			// (it may be a field inside a larger object)
			mm := strings.TrimSpace(m)
			if strings.HasPrefix(mm, "*") {
				for i, n := range names {
					if n == strings.TrimSpace(mm[1:]) && i < len(c.Args) {
						storeHeaps(c.Args[i], hs)
					}
				}
			}
		}
		// acquiring a monitor forgets the state it protects
		if k := funcKey(callee); k == "sync.(*Mutex).Lock" && len(c.Args) == 1 {
			if fa, ok := c.Args[0].(*ssa.FieldAddr); ok {
				if pt, ok := fa.X.Type().Underlying().(*types.Pointer); ok {
					root := shapeOf(pt.Elem())
					if mon := e.contracts.Monitors[embeddedKey(root, fa.Field)]; mon != nil {
						e.monitorHeaps(root, mon, hs)
					}
				}
			}
		}
		return
	}
	ef := e.effectsOf(callee, depth+1)
	for k, v := range ef.heaps {
		hs[k] = v
	}
	if ef.allocates {
		*allocates = true
	}
}

// modifiesHeaps over-approximates the heaps named by a modifies entry from
// the static types of the callee's parameters.
func (e *Engine) modifiesHeaps(callee *ssa.Function, spec *FuncSpec, loc string, hs map[string]string) {
	name := strings.TrimSpace(loc)
	if name == "nothing" {
		return
	}
	if strings.HasPrefix(name, "allof(") {
		tn := strings.Trim(strings.TrimSuffix(strings.TrimPrefix(name, "allof("), ")"), "\" ")
		env := &Env{fx: &FnCtx{eng: e}, pkg: e.pkgOf(spec.Pkg)}
		if callee != nil && callee.Pkg != nil && spec.Pkg == "" {
			env.pkg = callee.Pkg.Pkg
		}
		sh := shapeOf(env.resolveTypeExpr(tn))
		if sh.kind == KMap {
			has, val, hasSort, valSorts, _ := mapHeaps(sh)
			hs[has[0]] = arrSort(hasSort)
			for k := range val {
				hs[val[k]] = arrSort(valSorts[k])
			}
			hs["ML|"+sh.key] = arrSort(sInt)
		} else {
			if sh.kind == KSlice {
				sh = &Shape{kind: KArr, elem: sh.elem, n: -1, key: "[?]" + sh.elem.key}
			}
			for c := 0; c < sh.ncomp(); c++ {
				hs[heapName(sh, c)] = heapSort(sh, c)
			}
		}
		return
	}
	isMapOf := strings.HasPrefix(name, "mapof(")
	name = strings.TrimPrefix(name, "mapof(")
	name = strings.TrimPrefix(name, "*")
	name = strings.TrimPrefix(name, "deref(")
	isElems := strings.HasPrefix(name, "elems(") || strings.HasPrefix(name, "backing(")
	name = strings.TrimPrefix(name, "elems(")
	name = strings.TrimPrefix(name, "backing(")
	name = strings.TrimSuffix(name, ")")
	field := ""
	if i := strings.Index(name, "."); i >= 0 {
		field = name[i+1:]
		name = name[:i]
	}
	names := paramNames(callee, spec)
	for i, n := range names {
		if n != name || i >= len(callee.Params) {
			continue
		}
		t := callee.Params[i].Type()
		if isMapOf {
			// walk the field path to the map type
			for _, f := range strings.Split(field, ".") {
				if f == "" {
					continue
				}
				if pt, ok := t.Underlying().(*types.Pointer); ok {
					t = pt.Elem()
				}
				st, ok := t.Underlying().(*types.Struct)
				if !ok {
					return
				}
				found := false
				for k := 0; k < st.NumFields(); k++ {
					if st.Field(k).Name() == f {
						t = st.Field(k).Type()
						found = true
					}
				}
				if !found {
					return
				}
			}
			if _, ok := t.Underlying().(*types.Map); ok {
				msh := shapeOf(t)
				has, val, hasSort, valSorts, _ := mapHeaps(msh)
				hs[has[0]] = arrSort(hasSort)
				for k := range val {
					hs[val[k]] = arrSort(valSorts[k])
				}
				hs["ML|"+msh.key] = arrSort(sInt)
			}
			return
		}
		if isElems {
			if sl, ok := t.Underlying().(*types.Slice); ok {
				ash := &Shape{kind: KArr, elem: shapeOf(sl.Elem()), n: -1}
				for c := 0; c < ash.ncomp(); c++ {
					hs[heapName(ash, c)] = heapSort(ash, c)
				}
			}
			return
		}
		pt, ok := t.Underlying().(*types.Pointer)
		if !ok {
			return
		}
		sh := shapeOf(pt.Elem())
		lo, hi := 0, sh.ncomp()
		if field != "" && sh.kind == KStruct {
			for fi, fnm := range sh.fnames {
				if fnm == field {
					lo, hi = sh.fieldRange(fi)
				}
			}
		}
		for c := lo; c < hi; c++ {
			hs[heapName(sh, c)] = heapSort(sh, c)
		}
	}
}

// freeVarsWritten returns the captured variables that the closure stores to
// or hands to another call.
func freeVarsWritten(cf *ssa.Function) map[*ssa.FreeVar]bool {
	out := map[*ssa.FreeVar]bool{}
	rootFV := func(v ssa.Value) *ssa.FreeVar {
		for i := 0; i < 10; i++ {
			switch x := v.(type) {
			case *ssa.FreeVar:
				return x
			case *ssa.FieldAddr:
				v = x.X
			case *ssa.IndexAddr:
				v = x.X
			default:
				return nil
			}
		}
		return nil
	}
	for _, b := range cf.Blocks {
		for _, in := range b.Instrs {
			switch x := in.(type) {
			case *ssa.Store:
				if fv := rootFV(x.Addr); fv != nil {
					out[fv] = true
				}
			case *ssa.Call:
				for _, a := range x.Call.Args {
					if fv := rootFV(a); fv != nil {
						out[fv] = true
					}
				}
			case *ssa.Defer:
				for _, a := range x.Call.Args {
					if fv := rootFV(a); fv != nil {
						out[fv] = true
					}
				}
			case *ssa.MakeClosure:
				for _, a := range x.Bindings {
					if fv := rootFV(a); fv != nil {
						out[fv] = true
					}
				}
			}
		}
	}
	return out
}

// monitorHeaps names the heaps a monitor's modifies clause covers.
func (e *Engine) monitorHeaps(root *Shape, mon *MonitorSpec, hs map[string]string) {
	env := &Env{fx: e.newFnCtx(nil), pkg: e.pkgOf(mon.Pkg)}
	for _, m := range mon.Modifies {
		m = strings.TrimSpace(m)
		if strings.HasPrefix(m, "allof(") {
			name := strings.Trim(strings.TrimSuffix(strings.TrimPrefix(m, "allof("), ")"), "\"")
			sh := shapeOf(env.resolveTypeExpr(name))
			if sh.kind == KMap {
				has, val, hasSort, valSorts, _ := mapHeaps(sh)
				hs[has[0]] = arrSort(hasSort)
				for c := range val {
					hs[val[c]] = arrSort(valSorts[c])
				}
				hs["ML|"+sh.key] = arrSort(sInt)
				continue
			}
			for c := 0; c < sh.ncomp(); c++ {
				hs[heapName(sh, c)] = heapSort(sh, c)
			}
			continue
		}
		if i := strings.Index(m, "."); i >= 0 && m[:i] == mon.Var {
			for fi, fn := range root.fnames {
				if fn == m[i+1:] {
					lo, hi := root.fieldRange(fi)
					for c := lo; c < hi; c++ {
						hs[heapName(root, c)] = heapSort(root, c)
					}
				}
			}
		}
	}
}

func (e *Engine) effectsOf(fn *ssa.Function, depth int) *effects {
	if ef, ok := e.effectsMemo[fn]; ok {
		return ef
	}
	ef := &effects{heaps: map[string]string{}}
	e.effectsMemo[fn] = ef
	if depth > 8 {
		return ef
	}
	tracked := computeTracked(fn)
	for _, b := range fn.Blocks {
		for _, in := range b.Instrs {
			e.instrEffects(fn, in, tracked, nil, nil, ef.heaps, &ef.allocates, depth)
		}
	}
	return ef
}

// ---------------------------------------------------------------------------
// Frame helpers used by contracts

// localByName finds the tracked local (or parameter copy) with the given
// source name that is live in st; the innermost/latest allocation wins.
func (fr *Frame) localByName(name string, st *State) (Val, bool) {
	if strings.HasPrefix(name, "$") {
		// iterator pseudo-variables: $pos, $i of the only/innermost range loop
		for _, c := range fr.iters {
			if v, ok := st.cells[c]; ok {
				switch name {
				case "$pos":
					return v.field(0), true
				case "$i":
					return v.field(1), true
				}
			}
		}
		return Val{}, false
	}
	var best *Cell
	for a, c := range fr.cells {
		if a.Comment != name {
			continue
		}
		if _, ok := st.cells[c]; !ok {
			continue
		}
		if best == nil || c.id > best.id {
			best = c
		}
	}
	if best != nil {
		return st.cells[best], true
	}
	// heap-allocated locals (escaping): find Alloc by name and read the heap
	for _, b := range fr.fn.Blocks {
		for _, in := range b.Instrs {
			if a, ok := in.(*ssa.Alloc); ok && a.Comment == name {
				if p, ok := fr.regs[a]; ok && p.ptr == nil {
					return fr.fx.loadObj(st, p.sh.elem, p.ts[0]), true
				}
			}
		}
	}
	if v, ok := fr.params[name]; ok {
		return v, true
	}
	return Val{}, false
}

func (fr *Frame) envFor(st *State, old *State, extra map[string]CV) *Env {
	env := &Env{fx: fr.fx, vars: map[string]CV{}, st: st, old: old, bound: map[string]bool{}, fr: fr}
	if fr.fn.Pkg != nil {
		env.pkg = fr.fn.Pkg.Pkg
	} else if fr.fn.Parent() != nil && fr.fn.Parent().Pkg != nil {
		env.pkg = fr.fn.Parent().Pkg.Pkg
	}
	// names introduced by `def` in the contract of the function under
	// verification
	if fr.isRoot || fr == fr.fx.rootFrame {
		for k, v := range fr.fx.rootLets {
			env.vars[k] = v
		}
	}
	for k, v := range extra {
		env.vars[k] = v
	}
	env.prev = fr.innermostHead()
	return env
}

func (fr *Frame) evalClause(c Clause, st *State, old *State, extra map[string]CV) T {
	return fr.evalExprIn(c.E, st, old, extra).asBool()
}

func (fr *Frame) evalExprIn(e Expr, st *State, old *State, extra map[string]CV) CV {
	if old == nil {
		old = fr.entry
	}
	env := fr.envFor(st, old, extra)
	// old(x) for parameters: entry values
	env.oldV = map[string]CV{}
	for n, v := range fr.params {
		env.oldV[n] = cvOf(v)
	}
	return env.eval(e)
}

func (fx *FnCtx) noteAssumption(s string) {
	if fx.notes == nil {
		fx.notes = map[string]bool{}
	}
	fx.notes[s] = true
}

// ---------------------------------------------------------------------------
// Verifying one function

type FuncResult struct {
	Key         string
	Obligations []*Obligation
	Cover       []*Obligation
	Unsupported string
	Ctx         *FnCtx
	Instrs      int
	Seconds     float64
}

// comparesWithNil reports whether the function compares parameter p with nil.
func comparesWithNil(fn *ssa.Function, p *ssa.Parameter) bool {
	for _, b := range fn.Blocks {
		for _, in := range b.Instrs {
			bo, ok := in.(*ssa.BinOp)
			if !ok || (bo.Op != token.EQL && bo.Op != token.NEQ) {
				continue
			}
			isNil := func(v ssa.Value) bool {
				c, ok := v.(*ssa.Const)
				return ok && c.Value == nil
			}
			fromP := func(v ssa.Value) bool {
				if v == ssa.Value(p) {
					return true
				}
				if u, ok := v.(*ssa.UnOp); ok && u.Op == token.MUL {
					if a, ok := u.X.(*ssa.Alloc); ok && a.Comment == p.Name() {
						return true
					}
				}
				return false
			}
			if (isNil(bo.X) && fromP(bo.Y)) || (isNil(bo.Y) && fromP(bo.X)) {
				return true
			}
		}
	}
	return false
}

func countInstrs(fn *ssa.Function) int {
	n := 0
	for _, b := range fn.Blocks {
		n += len(b.Instrs)
	}
	return n
}

func (e *Engine) newFnCtx(fn *ssa.Function) *FnCtx {
	return &FnCtx{eng: e, root: fn, decls: newDecls(), inlined: map[string]bool{}, usedSpecs: map[string]bool{},
		usedSpecFns: map[string]bool{}, constBoxes: map[string]T{}, strConsts: map[string]T{}, specFnState: map[string]int{},
		trustedCalls: map[string]bool{}, heapSorts: map[string]string{}, strConstVals: map[string]string{},
		constBoxInfo: map[string]constBoxInfo{}, sfInst: map[string]bool{}}
}

// verifyFunction generates all obligations of the function with the given
// contract key. extraEnsures allows property-specific generated oracles.
func (e *Engine) verifyFunction(key string, extra *FuncSpec) (res *FuncResult) {
	start := time.Now()
	res = &FuncResult{Key: key}
	fn := e.lookupFunc(key)
	if fn == nil {
		res.Unsupported = "function not found in the current tree"
		return res
	}
	res.Instrs = countInstrs(fn)
	fx := e.newFnCtx(fn)
	res.Ctx = fx
	defer func() {
		res.Seconds = time.Since(start).Seconds()
		if r := recover(); r != nil {
			if u, ok := r.(unsupported); ok {
				res.Unsupported = u.msg
				res.Obligations = fx.obls
				return
			}
			res.Unsupported = fmt.Sprintf("internal error: %v\n%s", r, debug.Stack())
			res.Obligations = fx.obls
		}
	}()
	spec := e.specFor(fn)
	if extra != nil && extra != spec {
		merged := *extra
		if spec != nil {
			merged.Requires = append(append([]Clause{}, spec.Requires...), extra.Requires...)
			merged.Ensures = append(append([]Clause{}, spec.Ensures...), extra.Ensures...)
			merged.Loops = spec.Loops
			merged.Modifies = spec.Modifies
			merged.Lets = spec.Lets
			merged.PanicWhen = spec.PanicWhen
		}
		spec = &merged
	}
	st := &State{guard: "true", cells: map[*Cell]Val{}, heaps: map[string]T{}}
	st.alloc = fx.decls.Fresh("alloc0", sInt)
	fx.assumes = append(fx.assumes, le("1000", st.alloc)) // references 1..999 are package-level variables
	var args []Val
	for _, p := range fn.Params {
		v := freshVal(fx.decls, shapeOf(p.Type()), "arg_"+p.Name())
		fx.assumes = append(fx.assumes, typeInvariant(v))
		fx.assumeRefsBelow(st, v)
		args = append(args, v)
		fx.entryParams = append(fx.entryParams, namedVal{p.Name(), v})
	}
	// implicit preconditions (reported as assumptions): a pointer receiver
	// that the method never compares with nil is non-nil; function-typed
	// parameters are non-nil
	for i, p := range fn.Params {
		sh := shapeOf(p.Type())
		if sh.kind == KFunc || (sh.kind == KFunc && i == 0) {
			fx.assumes = append(fx.assumes, not(eq(args[i].ts[0], "0")))
			fx.noteAssumption("function-typed parameters are non-nil")
		}
	}
	path := shortKey(key)
	// a closure verified on its own: each captured variable is some existing
	// heap cell; its entry value is visible to the contract under its name
	var bindings []Val
	captured := map[string]Val{}
	for _, fv := range fn.FreeVars {
		pt, ok := fv.Type().Underlying().(*types.Pointer)
		if !ok {
			unsupp("captured value %s of %s", fv.Name(), key)
		}
		ref := fx.decls.Fresh("cap_"+fv.Name(), sInt)
		fx.assumes = append(fx.assumes, and(le("1", ref), le(ref, st.alloc)))
		esh := shapeOf(pt.Elem())
		bindings = append(bindings, Val{sh: shapeOf(fv.Type()), ts: []T{ref}})
		cur := fx.loadObj(st, esh, ref)
		fx.assumes = append(fx.assumes, typeInvariant(cur))
		fx.assumeRefsBelow(st, cur)
		captured[fv.Name()] = cur
	}
	if len(bindings) > 0 {
		fx.noteAssumption("closure verified on its own: captured variables are arbitrary existing cells (distinct captured variables may not alias)")
		for i := range bindings {
			for j := i + 1; j < len(bindings); j++ {
				if bindings[i].sh.key == bindings[j].sh.key {
					fx.assumes = append(fx.assumes, not(eq(bindings[i].ts[0], bindings[j].ts[0])))
				}
			}
		}
	}
	// preconditions
	pre := st.clone()
	fr0 := &Frame{fx: fx, fn: fn, params: map[string]Val{}, regs: map[ssa.Value]Val{}, cells: map[*ssa.Alloc]*Cell{}, iters: map[*ssa.Range]*Cell{}}
	for i, p := range fn.Params {
		fr0.params[p.Name()] = args[i]
	}
	for n, v := range captured {
		fr0.params[n] = v
	}
	fr0.entry = pre
	lets := map[string]CV{}
	if spec != nil {
		for _, u := range spec.Uses {
			fx.assumes = append(fx.assumes, e.lemmaAsAxiom(fx, u, ""))
			fx.usedLemmas = append(fx.usedLemmas, u)
		}
		for _, l := range spec.Lets {
			le, err := parseExpr(l.Type)
			if err != nil {
				unsupp("contract %s: %v", key, err)
			}
			lets[l.Name] = fr0.evalExprIn(le, pre, pre, lets)
		}
		fx.rootLets = lets
		for _, r := range spec.Requires {
			r := r
			if e.onlySafe && r.Label != "" && !strings.HasPrefix(r.Label, "safe") {
				continue
			}
			t := fx.hyp(func() T { return fr0.evalExprIn(r.E, pre, pre, lets).asBool() })
			fx.assumes = append(fx.assumes, t)
		}
		for _, ap := range spec.Applies {
			call := ap.E.(*ECall)
			env := fr0.envFor(pre, pre, lets)
			env.fr = nil
			for n, v := range fr0.params {
				env.vars[n] = cvOf(v)
			}
			fx.assumes = append(fx.assumes, e.lemmaInstance(fx, call.Fn, call.Args, env))
		}
	}
	// vacuity probe: the preconditions and type invariants are satisfiable
	probe := &Obligation{Name: path + "/vacuity/requires_satisfiable", Kind: "cover", Guard: "true", Cond: "false", NAssume: len(fx.assumes), Func: key}
	fx.cover = append(fx.cover, probe)

	if spec != nil && spec.Trusted {
		unsupp("contract of %s is marked trusted; body not verified", key)
	}
	// the spec used for loops is looked up by execFunction via specFor; make
	// the merged one visible
	fx.rootSpec = spec
	if spec != nil && !spec.Inline {
		fx.frame = &frameInfo{locs: fr0.frameLocs(spec, pre, lets), preAlloc: pre.alloc}
	}
	out, vals := fx.execFunction(fn, args, bindings, st, path, 0, true)

	// reachability of the normal exit
	fx.cover = append(fx.cover, &Obligation{Name: path + "/vacuity/return_reachable", Kind: "cover", Guard: "true", Cond: not(out.guard), NAssume: len(fx.assumes), Func: key})

	if spec != nil {
		// postconditions are checked at every return point separately (no
		// merged state, so each query only carries one path's memory)
		rets := fx.rootRets
		if len(rets) == 0 {
			rets = []retPoint{{st: out, vals: vals}}
		}
		for _, rp := range rets {
			post := map[string]CV{}
			for k, v := range lets {
				post[k] = v
			}
			results := fn.Signature.Results()
			for i := 0; i < results.Len(); i++ {
				n := results.At(i).Name()
				if n == "" || n == "_" {
					n = fmt.Sprintf("result%d", i)
				}
				post[n] = cvOf(rp.vals[i])
			}
			if len(rp.vals) == 1 {
				post["result"] = cvOf(rp.vals[0])
			}
			mkEnv := func(withLocals bool) *Env {
				env := fr0.envFor(rp.st, pre, post)
				env.fr = nil
				if withLocals {
					env.fr = fx.rootFrame
				}
				for n, v := range fr0.params {
					if _, shadow := env.vars[n]; !shadow {
						env.vars[n] = cvOf(v)
					}
				}
				env.oldV = map[string]CV{}
				for n, v := range fr0.params {
					env.oldV[n] = cvOf(v)
				}
				return env
			}
			for _, ap := range spec.ExitApplies {
				if e.onlySafe {
					break // exit lemmas serve the functional postconditions only
				}
				// a return point that precedes the declaration of a local the
				// clause mentions is not a point the clause speaks about
				func() {
					defer func() {
						if r := recover(); r != nil {
							if u, ok := r.(unsupported); ok && strings.Contains(u.msg, "unknown name") {
								return
							}
							panic(r)
						}
					}()
					e.applyLemma(fx, ap, mkEnv(true), rp.st, path+"/exit")
				}()
			}
			for i, c := range spec.Ensures {
				if !e.useClause(c) {
					continue
				}
				t := mkEnv(false).eval(c.E).asBool()
				o := fx.oblige("ensures", fmt.Sprintf("%s/ensures/%s", path, clauseName(c, i)), rp.st, t, fn.Pos(), c.Src)
				if len(c.Using) > 0 {
					o.Using = c.Using
				}
			}
		}
	}
	// a contract without a modifies clause promises that nothing that existed
	// at entry changes; callers rely on it, so it is checked too
	if spec != nil && !spec.Inline {
		fr0.checkFrame(spec, pre, out, lets, path, fn)
	}
	res.Obligations = fx.obls
	res.Cover = fx.cover
	return res
}

type frameLoc struct {
	all    bool // every object of the heap
	heap   string // heap name
	ref    T
	window bool
	lo, hi T // element window for E heaps
}

// checkFrame proves that nothing outside the modifies clause changed in
// memory that existed at entry.
func (fr *Frame) checkFrame(spec *FuncSpec, pre, out *State, lets map[string]CV, path string, fn *ssa.Function) {
	fx := fr.fx
	fi := fx.frame
	if fi == nil {
		return
	}
	for _, h := range sortedKeys(out.heaps) {
		cond, skip := fx.frameCond(h, out.heaps[h], out.alloc, false)
		if skip {
			continue
		}
		fx.oblige("frame", fmt.Sprintf("%s/frame/%s", path, sanitize(h)), out, cond, fn.Pos(), "modifies "+strings.Join(spec.Modifies, ", "))
	}
}

// frameInfo is the modifies clause of the function under verification,
// evaluated in its entry state.
type frameInfo struct {
	locs     []frameLoc
	preAlloc T
}

// frameLocs evaluates the modifies clause in the entry state.
func (fr *Frame) frameLocs(spec *FuncSpec, pre *State, lets map[string]CV) []frameLoc {
	fx := fr.fx
	var locs []frameLoc
	env := fr.envFor(pre, pre, lets)
	env.fr = nil
	for n, v := range fr.params {
		env.vars[n] = cvOf(v)
	}
	addObj := func(sh *Shape, ref T, lo, hi int) {
		for c := lo; c < hi; c++ {
			locs = append(locs, frameLoc{heap: heapName(sh, c), ref: ref})
		}
	}
	for _, m := range spec.Modifies {
		m = strings.TrimSpace(m)
		if m == "nothing" {
			continue
		}
		e, err := parseExpr(strings.TrimPrefix(m, "*"))
		if err != nil {
			unsupp("modifies %q: %v", m, err)
		}
		switch x := e.(type) {
		case *ECall:
			if x.Fn == "elems" {
				cv := env.eval(x.Args[0])
				if cv.k != cvVal || cv.v.sh.kind != KSlice {
					unsupp("modifies %s: not a slice", m)
				}
				ash := &Shape{kind: KArr, elem: cv.v.sh.elem, n: -1}
				for c := 0; c < ash.ncomp(); c++ {
					locs = append(locs, frameLoc{heap: heapName(ash, c), ref: cv.v.slRef(), window: true, lo: cv.v.slOff(), hi: add(cv.v.slOff(), cv.v.slLen())})
				}
				continue
			}
			if x.Fn == "deref" {
				cv := env.eval(x.Args[0])
				addObj(cv.v.sh.elem, cv.v.ts[0], 0, cv.v.sh.elem.ncomp())
				continue
			}
			if x.Fn == "allof" {
				id, ok := x.Args[0].(*EStr)
				if !ok {
					unsupp("modifies allof(\"T\")")
				}
				sh := shapeOf(env.resolveTypeExpr(id.V))
				if sh.kind == KMap {
					has, val, _, _, _ := mapHeaps(sh)
					locs = append(locs, frameLoc{heap: has[0], all: true}, frameLoc{heap: "ML|" + sh.key, all: true})
					for _, v := range val {
						locs = append(locs, frameLoc{heap: v, all: true})
					}
				} else {
					if sh.kind == KSlice {
						sh = &Shape{kind: KArr, elem: sh.elem, n: -1, key: "[?]" + sh.elem.key}
					}
					for c := 0; c < sh.ncomp(); c++ {
						locs = append(locs, frameLoc{heap: heapName(sh, c), all: true})
					}
				}
				continue
			}
			if x.Fn == "mapof" {
				cv := env.eval(x.Args[0])
				if cv.k != cvVal || cv.v.sh.kind != KMap {
					unsupp("modifies %s: not a map", m)
				}
				has, val, _, _, _ := mapHeaps(cv.v.sh)
				locs = append(locs, frameLoc{heap: has[0], ref: cv.v.ts[0]}, frameLoc{heap: "ML|" + cv.v.sh.key, ref: cv.v.ts[0]})
				for _, v := range val {
					locs = append(locs, frameLoc{heap: v, ref: cv.v.ts[0]})
				}
				continue
			}
			if x.Fn == "backing" {
				cv := env.eval(x.Args[0])
				if cv.k != cvVal || cv.v.sh.kind != KSlice {
					unsupp("modifies %s: not a slice", m)
				}
				ash := &Shape{kind: KArr, elem: cv.v.sh.elem, n: -1}
				addObj(ash, cv.v.slRef(), 0, ash.ncomp())
				continue
			}
		case *EField:
			base := env.eval(x.X)
			if base.k == cvVal && base.v.sh.kind == KPtr && base.v.sh.elem.kind == KStruct {
				sh := base.v.sh.elem
				for i, n := range sh.fnames {
					if n == x.Name {
						if fx.eng.contracts.Embedded[embeddedKey(sh, i)] {
							fsh := sh.fields[i]
							addObj(fsh, fx.embAddr(base.v.ts[0], i), 0, fsh.ncomp())
							continue
						}
						lo, hi := sh.fieldRange(i)
						addObj(sh, base.v.ts[0], lo, hi)
					}
				}
				continue
			}
		case *EIdent:
			if strings.HasPrefix(m, "*") {
				cv := env.eval(x)
				if cv.k == cvVal && cv.v.sh.kind == KPtr && cv.v.ptr == nil {
					addObj(cv.v.sh.elem, cv.v.ts[0], 0, cv.v.sh.elem.ncomp())
					continue
				}
			}
		}
		unsupp("modifies clause %q not understood", m)
	}
	return locs
}

// frameCond states that heap term `final` of heap h agrees with the entry
// heap on every object that existed at entry and is outside the modifies
// clause.  As a goal it is stated for a fresh object (and index); as an
// assumption (loop heads) it is quantified.
func (fx *FnCtx) frameCond(h string, final T, curAlloc T, asAssumption bool) (T, bool) {
	fi := fx.frame
	init := "|H0:" + sanitize(h) + "|"
	if final == init {
		return "", true
	}
	so := fx.heapSorts[h]
	if so == "" || !strings.HasPrefix(so, "(Array Int ") {
		return "", true
	}
	fx.decls.Raw(fmt.Sprintf("(declare-fun %s () %s)", init, so))
	var r, i T
	if asAssumption {
		r, i = "fr_r", "fr_i"
	} else {
		r = fx.decls.Fresh("frame_r", sInt)
	}
	var excl []T
	var wins []frameLoc
	for _, l := range fi.locs {
		if l.heap != h {
			continue
		}
		if l.all {
			return "", true
		}
		if l.window {
			wins = append(wins, l)
		} else {
			excl = append(excl, eq(r, l.ref))
		}
	}
	existed := and(le("1", r), le(r, fi.preAlloc))
	withEmb := false
	if strings.HasPrefix(h, "O|") {
		if i := strings.LastIndex(h, "|"); i > 2 {
			withEmb = fx.eng.embeddedHeapKeys()[h[2:i]]
		}
	}
	if withEmb {
		existed = or(existed,
			and(le(embBase, r), le("1", fx.embOwner(r)), le(fx.embOwner(r), fi.preAlloc)))
	}
	var cond T
	elemWise := strings.HasPrefix(h, "E|") && len(wins) > 0
	if elemWise {
		if !asAssumption {
			i = fx.decls.Fresh("frame_i", sInt)
		}
		var inWin []T
		for _, w := range wins {
			inWin = append(inWin, and(eq(r, w.ref), le(w.lo, i), lt(i, w.hi)))
		}
		cond = imp(and(existed, not(or(excl...)), not(or(inWin...))), eq(sel(sel(final, r), i), sel(sel(init, r), i)))
	} else {
		cond = imp(and(existed, not(or(excl...))), eq(sel(final, r), sel(init, r)))
	}
	// ordinary references stay below the range used for the addresses of
	// embedded fields (fewer than 2^40 objects are ever allocated)
	if withEmb {
		cond = imp(lt(curAlloc, embBase), cond)
	}
	if asAssumption {
		if elemWise {
			return fmt.Sprintf("(forall ((fr_r Int) (fr_i Int)) (! %s :pattern ((select (select %s fr_r) fr_i))))", cond, final), false
		}
		return fmt.Sprintf("(forall ((fr_r Int)) (! %s :pattern ((select %s fr_r))))", cond, final), false
	}
	return cond, false
}

func shortKey(key string) string {
	if strings.HasPrefix(key, modulePrefix+"/") {
		return key[len(modulePrefix)+1:]
	}
	return key
}

// ---------------------------------------------------------------------------
// Discharge

type dischargeOpts struct {
	timeoutS int
	workers  int
	keepDir  string
	solvers  []string
}

func discharge(results []*FuncResult, opt dischargeOpts) {
	type job struct {
		fx *FnCtx
		o  *Obligation
	}
	var jobs []job
	for _, r := range results {
		for _, o := range r.Obligations {
			if o.Result.Status == "" {
				jobs = append(jobs, job{r.Ctx, o})
			}
		}
		for _, o := range r.Cover {
			jobs = append(jobs, job{r.Ctx, o})
		}
	}
	ch := make(chan job)
	var wg sync.WaitGroup
	for w := 0; w < opt.workers; w++ {
		wg.Add(1)
		go func() {
			defer wg.Done()
			for j := range ch {
				q := j.fx.query(j.o)
				j.o.Query = q
				keep := ""
				if opt.keepDir != "" {
					keep = filepath.Join(opt.keepDir, sanitize(j.o.Name)+".smt2")
				}
				t := opt.timeoutS
				if j.o.Kind == "cover" && t > 3 {
					t = 3 // reachability probes only need a quick "not unsat"
				}
				if j.o.Short && t > 4 {
					t = 4
				}
				j.o.Result = solve(q, t, opt.solvers, keep)
			}
		}()
	}
	for _, j := range jobs {
		ch <- j
	}
	close(ch)
	wg.Wait()
}

var _ = token.NoPos

// verifyLemma discharges a lemma of the contract language: a universally
// quantified implication over spec functions, optionally by induction on a
// natural-number parameter (the induction hypothesis is the lemma itself at
// the predecessor, for all values of the other parameters).
func (e *Engine) verifyLemma(name string) (res *FuncResult) {
	start := time.Now()
	res = &FuncResult{Key: "lemma:" + name}
	lem := e.contracts.Lemmas[name]
	if lem == nil {
		res.Unsupported = "lemma not found"
		return res
	}
	fx := e.newFnCtx(nil)
	fx.lemmaName = "lemma:" + name
	fx.reveal = map[string]bool{}
	for _, r := range lem.Reveal {
		fx.reveal[r] = true
	}
	res.Ctx = fx
	defer func() {
		res.Seconds = time.Since(start).Seconds()
		if r := recover(); r != nil {
			if u, ok := r.(unsupported); ok {
				res.Unsupported = u.msg
			} else {
				res.Unsupported = fmt.Sprintf("internal error: %v\n%s", r, debug.Stack())
			}
			res.Obligations = fx.obls
		}
	}()
	st := &State{guard: "true", cells: map[*Cell]Val{}, heaps: map[string]T{}, alloc: "0"}
	env := &Env{fx: fx, vars: map[string]CV{}, st: st, old: st, pkg: e.pkgOf(lem.Pkg), bound: map[string]bool{}}
	mk := func(env *Env, bound bool) (names []string, binders []string) {
		for _, p := range lem.Params {
			sty := env.specTypeOf(p.Type)
			var ts []T
			for c, so := range sty.sorts {
				var n T
				if bound {
					n = fmt.Sprintf("ih_%s_%d", p.Name, c)
					binders = append(binders, fmt.Sprintf("(%s %s)", n, so))
				} else {
					n = fx.decls.Fresh("lem_"+p.Name, so)
				}
				ts = append(ts, n)
			}
			cv := unflattenCV(ts, sty, arrLenOfType(p.Type))
			env.vars[p.Name] = cv
			if sty.k == cvStr {
				if bound {
					// range facts become part of the hypothesis' antecedent
				} else {
					fx.assumes = append(fx.assumes, le("0", cv.off), le("0", cv.n))
				}
			}
			if p.Type == "byte" && !bound {
				fx.assumes = append(fx.assumes, le("0", cv.t), le(cv.t, "255"))
			}
			if p.Type == "nat" && !bound {
				fx.assumes = append(fx.assumes, le("0", cv.t))
			}
			if sty.k == cvVal && !bound {
				fx.assumes = append(fx.assumes, typeInvariant(cv.v))
			}
		}
		return
	}
	mk(env, false)
	// used lemmas (already proved separately) as quantified assumptions
	for _, u := range lem.Uses {
		fx.assumes = append(fx.assumes, e.lemmaAsAxiom(fx, u, ""))
	}
	if lem.Induct != "" {
		// induction hypothesis: the lemma itself for the predecessor of the
		// induction variable (same other parameters), when that is >= 0
		ih := &Env{fx: fx, vars: map[string]CV{}, st: st, old: st, pkg: env.pkg, bound: map[string]bool{}}
		for k, v := range env.vars {
			ih.vars[k] = v
		}
		iv := env.vars[lem.Induct].asInt()
		ih.vars[lem.Induct] = CV{k: cvInt, t: sub(iv, "1")}
		var pre, posts []T
		for _, r := range lem.Requires {
			pre = append(pre, ih.eval(r.E).asBool())
		}
		for _, c := range lem.Ensures {
			posts = append(posts, ih.eval(c.E).asBool())
		}
		fx.assumes = append(fx.assumes, imp(and(append([]T{le("1", iv)}, pre...)...), and(posts...)))
		if lem.Strong {
			fx.assumes = append(fx.assumes, e.lemmaAsAxiom(fx, name, lem.Induct+"|"+iv))
		}
	}
	for _, r := range lem.Requires {
		r := r
		fx.assumes = append(fx.assumes, fx.hyp(func() T { return env.eval(r.E).asBool() }))
	}
	for _, ap := range lem.Applies {
		ex := ap.E
		when := T("true")
		if c, ok := ex.(*ECond); ok && c.B == nil {
			when = env.eval(c.C).asBool()
			ex = c.A
		}
		call := ex.(*ECall)
		if call.Fn == name {
			unsupp("lemma %s applies itself (use 'induction on')", name)
		}
		if _, isSpec := e.contracts.SpecFns[call.Fn]; isSpec {
			// mentioning a spec function instantiates its defining clauses
			env.eval(call)
			continue
		}
		fx.assumes = append(fx.assumes, imp(when, e.lemmaInstance(fx, call.Fn, call.Args, env)))
	}
	// calls by contract: each starts from the same symbolic pre-state, so the
	// lemma relates independent runs of the function(s) (self-composition)
	for _, lc := range lem.Calls {
		key := lem.Pkg + "." + lc.Fn
		fn := e.lookupFunc(key)
		spec := e.contracts.Funcs[key]
		if fn == nil || spec == nil {
			unsupp("lemma %s: call of %s needs a function with a contract", name, lc.Fn)
		}
		var args []Val
		for i, a := range lc.Args {
			if i >= len(fn.Params) {
				unsupp("lemma %s: too many arguments for %s", name, lc.Fn)
			}
			args = append(args, env.toVal(env.eval(a), shapeOf(fn.Params[i].Type())))
		}
		run := st.clone()
		fr := &Frame{fx: fx, fn: fn, path: "lemma:" + name + "/" + lc.Result, regs: map[ssa.Value]Val{}, cells: map[*ssa.Alloc]*Cell{}, iters: map[*ssa.Range]*Cell{}, params: map[string]Val{}}
		res := fr.callWithSpec(fn, spec, args, run, token.NoPos)
		if res != nil {
			env.vars[lc.Result] = cvOf(*res)
		}
		// the post-state of this run is visible through post(<result>, expr)
		if fx.lemmaStates == nil {
			fx.lemmaStates = map[string]*State{}
		}
		fx.lemmaStates[lc.Result] = run
	}
	fx.cover = append(fx.cover, &Obligation{Name: "lemma:" + name + "/vacuity/requires_satisfiable", Kind: "cover", Guard: "true", Cond: "false", NAssume: len(fx.assumes), Func: fx.lemmaName})
	for i, c := range lem.Ensures {
		t := env.eval(c.E).asBool()
		fx.oblige("lemma", fmt.Sprintf("lemma:%s/%s", name, clauseName(c, i)), st, t, token.NoPos, c.Src)
	}
	res.Obligations = fx.obls
	res.Cover = fx.cover
	return res
}

// lemmaAsAxiom renders a lemma as a universally quantified formula. With
// induct = "var|term" the formula is restricted to instances whose var is a
// natural number smaller than term (the induction hypothesis).
func (e *Engine) lemmaAsAxiom(fx *FnCtx, name string, induct string) T {
	lem := e.contracts.Lemmas[name]
	if lem == nil {
		unsupp("unknown lemma %s", name)
	}
	st := &State{guard: "true", cells: map[*Cell]Val{}, heaps: map[string]T{}, alloc: "0"}
	env := &Env{fx: fx, vars: map[string]CV{}, st: st, old: st, pkg: e.pkgOf(lem.Pkg), bound: map[string]bool{"ax": true}}
	var binders []string
	var pre []T
	for _, p := range lem.Params {
		sty := env.specTypeOf(p.Type)
		var ts []T
		for c, so := range sty.sorts {
			n := fmt.Sprintf("ax_%s_%s_%d", sanitize(name), p.Name, c)
			binders = append(binders, fmt.Sprintf("(%s %s)", n, so))
			ts = append(ts, n)
		}
		cv := unflattenCV(ts, sty, arrLenOfType(p.Type))
		env.vars[p.Name] = cv
		if sty.k == cvStr {
			pre = append(pre, le("0", cv.off), le("0", cv.n))
		}
		if p.Type == "byte" {
			pre = append(pre, le("0", cv.t), le(cv.t, "255"))
		}
		if p.Type == "nat" {
			pre = append(pre, le("0", cv.t))
		}
	}
	if induct != "" {
		parts := strings.SplitN(induct, "|", 2)
		v := env.vars[parts[0]].asInt()
		pre = append(pre, le("0", v), lt(v, parts[1]))
	}
	for _, r := range lem.Requires {
		pre = append(pre, env.eval(r.E).asBool())
	}
	var posts []T
	for _, c := range lem.Ensures {
		posts = append(posts, env.eval(c.E).asBool())
	}
	return fmt.Sprintf("(forall (%s) %s)", strings.Join(binders, " "), imp(and(pre...), and(posts...)))
}

// lemmaInstance is the ground instance "requires ==> ensures" of a (separately
// proved) lemma for the given argument expressions.
func (e *Engine) lemmaInstance(fx *FnCtx, name string, args []Expr, env *Env) T {
	lem := e.contracts.Lemmas[name]
	if lem == nil {
		unsupp("unknown lemma %s", name)
	}
	if len(args) != len(lem.Params) {
		unsupp("lemma %s expects %d arguments", name, len(lem.Params))
	}
	fx.usedLemmas = append(fx.usedLemmas, name)
	inst := &Env{fx: fx, vars: map[string]CV{}, st: env.st, old: env.old, pkg: e.pkgOf(lem.Pkg), bound: map[string]bool{}}
	for i, p := range lem.Params {
		inst.vars[p.Name] = env.eval(args[i])
	}
	var pre, posts []T
	for _, p := range lem.Params {
		if p.Type == "nat" {
			pre = append(pre, le("0", inst.vars[p.Name].asInt()))
		}
	}
	for _, r := range lem.Requires {
		pre = append(pre, inst.eval(r.E).asBool())
	}
	for _, c := range lem.Ensures {
		c := c
		posts = append(posts, fx.hyp(func() T { return inst.eval(c.E).asBool() }))
	}
	return imp(and(pre...), and(posts...))
}

// applyLemma is a lemma call in the Dafny sense: its preconditions become
// obligations at this point, its conclusions are assumed afterwards.  The
// clause may carry a "when" condition (ECond with nil else-branch).
func (e *Engine) applyLemma(fx *FnCtx, cl Clause, env *Env, st *State, where string) {
	ex := cl.E
	guard := st.guard
	if c, ok := ex.(*ECond); ok && c.B == nil {
		guard = and(guard, env.eval(c.C).asBool())
		ex = c.A
	}
	call := ex.(*ECall)
	if _, isSpec := e.contracts.SpecFns[call.Fn]; isSpec {
		env.eval(call)
		return
	}
	lem := e.contracts.Lemmas[call.Fn]
	if lem == nil {
		unsupp("unknown lemma %s", call.Fn)
	}
	if len(call.Args) != len(lem.Params) {
		unsupp("lemma %s expects %d arguments", call.Fn, len(lem.Params))
	}
	fx.usedLemmas = append(fx.usedLemmas, call.Fn)
	inst := &Env{fx: fx, vars: map[string]CV{}, st: env.st, old: env.old, pkg: e.pkgOf(lem.Pkg), bound: map[string]bool{}}
	for i, p := range lem.Params {
		inst.vars[p.Name] = env.eval(call.Args[i])
	}
	gst := st.clone()
	gst.guard = guard
	for _, p := range lem.Params {
		if p.Type == "nat" {
			fx.oblige("requires", fmt.Sprintf("%s/lemma/%s/requires/nat_%s#", where, call.Fn, p.Name), gst, le("0", inst.vars[p.Name].asInt()), token.NoPos, "nat parameter")
		}
	}
	for i, r := range lem.Requires {
		fx.oblige("requires", fmt.Sprintf("%s/lemma/%s/requires/%s#", where, call.Fn, clauseName(r, i)), gst, inst.eval(r.E).asBool(), token.NoPos, r.Src)
	}
	for _, c := range lem.Ensures {
		c := c
		fx.assume(guard, fx.hyp(func() T { return inst.eval(c.E).asBool() }))
	}
}
