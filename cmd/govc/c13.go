package main

import (
	"fmt"
	"path/filepath"
	"regexp"
	"strconv"
	"strings"
)

// Bounded stand-in for the ContainsFold half of property C13: Unicode case
// folding tables are outside what the contracts can express, so the real
// function is compared with the reference definition of the property
// (a same-length substring starting at a rune boundary that is EqualFold to
// substr) over all operands built from a small rune alphabet that contains
// fold orbits of size two and three, multi-byte runes and caseless runes.
const c13TestSrc = `package stringutil_test

import (
	"fmt"
	"strings"
	"testing"
	"unicode/utf8"

	"github.com/AdguardTeam/golibs/stringutil"
)

func govcRef(s, sub string) bool {
	for i := 0; i+len(sub) <= len(s); {
		if strings.EqualFold(s[i:i+len(sub)], sub) {
			return true
		}
		if i == len(s) {
			break
		}
		_, w := utf8.DecodeRuneInString(s[i:])
		i += w
	}
	return false
}

func TestGovcReplay(t *testing.T) {
	alphabet := []rune{'k', 'K', '\u212a', 's', '\u017f', 'a', 'A', '\u00e9', '\u00c9', '1', '\u03c3', '\u03c2', '\u03a3', '\u0398', '\u03b8', '\u03d1', '\u03f4'}
	maxS, maxSub := %d, %d
	var all func(n int) []string
	all = func(n int) []string {
		out := []string{""}
		prev := []string{""}
		for l := 1; l <= n; l++ {
			var cur []string
			for _, p := range prev {
				for _, r := range alphabet {
					cur = append(cur, p+string(r))
				}
			}
			out = append(out, cur...)
			prev = cur
		}
		return out
	}
	ss, subs := all(maxS), all(maxSub)
	cases, trues, fails := 0, 0, 0
	for _, s := range ss {
		for _, sub := range subs {
			cases++
			want := govcRef(s, sub)
			if want {
				trues++
			}
			if got := stringutil.ContainsFold(s, sub); got != want {
				fails++
				if fails <= 8 {
					fmt.Printf("GOVC-BOUNDED-FAIL ContainsFold(%%q, %%q) got=%%v want=%%v\n", s, sub, got, want)
				}
			}
			// the ASCII clause of the property
			if isASCII(s) && isASCII(sub) {
				if want != strings.Contains(strings.ToLower(s), strings.ToLower(sub)) {
					fmt.Printf("GOVC-BOUNDED-FAIL reference disagrees with ToLower/Contains on (%%q, %%q)\n", s, sub)
					fails++
				}
			}
		}
	}
	fmt.Printf("GOVC-BOUNDED cases=%%d accepted=%%d failures=%%d\n", cases, trues, fails)
}

func isASCII(s string) bool {
	for i := 0; i < len(s); i++ {
		if s[i] >= 0x80 {
			return false
		}
	}
	return true
}
`

func c13Bounded(eng *Engine, tier string, seed int64) *BoundedResult {
	maxS, maxSub := 3, 2
	if tier == "thorough" {
		maxS, maxSub = 4, 2
	}
	src := fmt.Sprintf(c13TestSrc, maxS, maxSub)
	out := runHarness(repoDir(), filepath.Join(repoDir(), "stringutil"), src)
	res := &BoundedResult{
		What:  "ContainsFold compared, on the real code, with the reference definition of the property (same-length substring at a rune boundary that is strings.EqualFold to substr) and, for ASCII operands, with strings.Contains(ToLower(s), ToLower(substr))",
		Bound: fmt.Sprintf("all s of at most %d runes and all substr of at most %d runes over the alphabet k K U+212A s U+017F a A e-acute E-acute 1 sigma final-sigma Sigma and the four-member theta orbit U+0398 U+03B8 U+03D1 U+03F4", maxS, maxSub),
	}
	sum := regexp.MustCompile(`GOVC-BOUNDED cases=(\d+) accepted=(\d+) failures=(\d+)`).FindStringSubmatch(out)
	if sum == nil {
		res.Failures = append(res.Failures, "harness did not complete: "+truncate(out, 300))
		return res
	}
	res.Cases, _ = strconv.Atoi(sum[1])
	res.Nontrivial, _ = strconv.Atoi(sum[2])
	for _, l := range strings.Split(out, "\n") {
		if strings.HasPrefix(l, "GOVC-BOUNDED-FAIL ") {
			res.Failures = append(res.Failures, strings.TrimPrefix(l, "GOVC-BOUNDED-FAIL "))
		}
	}
	if n, _ := strconv.Atoi(sum[3]); n > 0 && len(res.Failures) == 0 {
		res.Failures = append(res.Failures, fmt.Sprintf("%d disagreements", n))
	}
	return res
}
