package main

// The registry of claimed properties.

func properties() map[string]*PropertyDef {
	ps := []*PropertyDef{
		{
			ID:       "C06",
			Patterns: []string{"./netutil"},
			Funcs: []string{
				"netutil.isLocallyServedV4", "netutil.isLocallyServedV6", "netutil.IsLocallyServed",
				"netutil.isSpecialPurposeV4", "netutil.isSpecialPurposeV6", "netutil.IsSpecialPurpose",
			},
			Gen: genC06,
			LevelText: "proof: for all 2^32 IPv4 and 2^128 IPv6 addresses (and the invalid Addr) the result equals membership in the networks listed in the function's documentation; loop-free code, so each postcondition is one quantifier-free SMT query",
			LevelNote: "assumes the abstract model of netip.Addr (IsValid/Is4/As4/As16 as projections, specs/netip.spec); trusted: go/ssa lowering, govc's encoding, z3/cvc5. The oracle follows the doc comment of the current source.",
			Technique: "contract-based deductive verification (govc): postconditions generated from the doc-comment network lists, WP over go/ssa, discharged by z3/cvc5",
			NeedsClauses: map[string][]string{
				"netutil.IsLocallyServed": {"doc_membership"}, "netutil.IsSpecialPurpose": {"doc_membership"},
				"netutil.isLocallyServedV4": {"doc_membership"}, "netutil.isLocallyServedV6": {"doc_membership"},
				"netutil.isSpecialPurposeV4": {"doc_membership"}, "netutil.isSpecialPurposeV6": {"doc_membership"},
			},
			Assumptions: []string{
				"netip.Addr is an abstract value observed through IsValid/Is4/As4/As16 (specs/netip.spec); As4 of an IPv4 address equals bytes 12..15 of its As16 form",
				"the oracle is the list of CIDR tokens at the start of the documentation-comment lines of IsLocallyServed / IsSpecialPurpose in the current source; membership is mathematical (zone ignored)",
			},
			Explanation: "loop-free functions: each postcondition 'result <=> address lies in one of the documented networks' is a quantifier-free query over 4 or 16 byte variables, i.e. all 2^32 + 2^128 addresses and the invalid Addr",
		},
	}
	ps = append(ps, &PropertyDef{
		ID:       "C15",
		Patterns: []string{"./ioutil"},
		Funcs: []string{
			"ioutil.LimitReader", "ioutil.(*limitedReader).Read", "ioutil.NewTruncatedWriter", "ioutil.(*TruncatedWriter).Write",
		},
		NeedsClauses: map[string][]string{
			"ioutil.(*limitedReader).Read":   {"inv", "exhausted", "one_clamped_request", "passthrough", "accounting", "bad_length_rejected"},
			"ioutil.(*TruncatedWriter).Write": {"reports_all", "inv", "accounting", "full_forwards_nothing", "forwards_prefix"},
			"ioutil.LimitReader":             {"wraps"},
		},
		Assumptions: []string{
			"io.Reader.Read / io.Writer.Write of the wrapped object are arbitrary except n <= len(p) (negative n allowed; errors arbitrary); they may write only the window they were given",
			"the history-level statement (total delivered <= limit; forwarded bytes = first min(total, limit) bytes) follows by induction over the call sequence from the object invariant n <= limit / offset <= limit and the per-call two-state postconditions 'accounting', 'one_clamped_request', 'forwards_prefix'; the induction step is what is proved, the telescoping sum is not mechanised",
			"single-goroutine use, as documented",
		},
		Explanation: "object invariant plus per-call two-state postconditions over a ghost log of the calls made to the wrapped reader/writer; exact uint/uint64 arithmetic",
		LevelText:   "proof: for every state satisfying the object invariant, every buffer and every behaviour of the wrapped reader/writer allowed by the assumed interface contract, one call re-establishes the invariant, requests/forwards exactly the clamped window once, passes results through and accounts for the bytes; induction over call sequences gives the property",
		LevelNote:   "assumed: io.Reader/io.Writer interface contracts (specs/io.spec), fmt.Errorf returns non-nil; trusted: go/ssa lowering, govc encoding, solvers",
		Technique:   "contract-based deductive verification (govc): object invariant + two-state postconditions with a ghost call log, WP over go/ssa, z3/cvc5",
	})
	ps = append(ps, &PropertyDef{
		ID:       "C12",
		Patterns: []string{"./netutil"},
		Funcs: []string{
			"netutil.IPToAddr", "netutil.IPToAddrNoMapped", "netutil.IPNetToPrefix", "netutil.IPNetToPrefixNoMapped",
			"netutil.NetAddrToAddrPort", "netutil.PreferIPv4", "netutil.PreferIPv6",
		},
		Lemmas: []string{"ipnetMembership4", "maskByteMembership", "prefer4StrictWeakOrder", "prefer6StrictWeakOrder"},
		NeedsClauses: map[string][]string{
			"netutil.IPToAddr":         {"nil_rejected", "v4_accepts", "v4_same_addr", "v6_accepts", "v6_same_addr"},
			"netutil.IPToAddrNoMapped": {"accepts", "unmapped", "v6_same_addr"},
			"netutil.IPNetToPrefix":    {"addr_v4", "addr_v6", "valid", "mask_is_prefix"},
			"netutil.IPNetToPrefixNoMapped": {"addr_v4", "addr_v6", "valid", "mask_is_prefix"},
			"netutil.NetAddrToAddrPort": {"no_addrport", "same_port", "same_addr", "unmapped"},
			"netutil.PreferIPv4":        {"order"},
			"netutil.PreferIPv6":        {"order"},
		},
		Assumptions: []string{
			"net.IP.To4/To16, net.IPMask.Size, netip.AddrFromSlice/PrefixFrom/Prefix.IsValid/Addr.Unmap/Addr.Compare/AddrPortFrom by their documented byte-level meaning (specs/net.spec, specs/netip.spec)",
			"Addr.Compare is a total order on the addresses compared (requires clause of the ordering lemmas); slices.SortFunc sorts by a strict weak ordering given as cmp(a,b) < 0",
			"subnet membership: IPNet contains x iff x[i]&m[i] == ip[i]&m[i] for all i; Prefix contains x iff the top Bits() bits agree (netip documentation); the statement is scoped to masks as long as the converted address",
			"zones: net.IP carries no zone; results are proved zone-free",
		},
		Explanation: "loop-free conversions proved against the byte-level meaning of net.IP; mask/prefix membership equivalence and the strict-weak-order facts are lemmas over the same spec functions that the postconditions use",
		LevelText:   "proof: for every net.IP / *net.IPNet / net.Addr value the conversions keep the address bytes and family, reject what is not an address of the family, and accept only masks that are a contiguous run of ones whose length is the prefix length; the comparators' sign is a strict weak order with the documented class order",
		LevelNote:   "assumed library contracts listed under assumptions (net, netip); callbacks through the AddrPort() interface are arbitrary; trusted: go/ssa lowering, govc encoding, solvers",
		Technique:   "contract-based deductive verification (govc): modular postconditions over abstract netip values + lemmas, WP over go/ssa, z3/cvc5",
	})
	ps = append(ps, &PropertyDef{
		ID:       "C16",
		Patterns: []string{"./netutil/urlutil"},
		Funcs:    []string{"netutil/urlutil.RedactUserinfo", "netutil/urlutil.RedactUserinfoInURLError"},
		Lemmas:   []string{"redactNonInterference"},
		Kinds:    map[string]bool{"ensures": true, "frame": true, "requires": true, "lemma": true},
		NeedsClauses: map[string][]string{
			"netutil/urlutil.RedactUserinfo":           {"no_userinfo_as_is", "fresh_copy", "masked", "rest_equal", "exact_copy", "input_unchanged", "frame/"},
			"netutil/urlutil.RedactUserinfoInURLError": {"redacted_text", "untouched_without_userinfo", "frame/"},
			"lemma:redactNonInterference":              {"components_equal", "userinfo_equal", "userinfo_is_mask"},
		},
		ExtraChecks: func(eng *Engine, run *checkRun) {
			checkGlobalImmutable(eng, run, modulePrefix+"/netutil/urlutil", "redactedUserinfo")
		},
		Assumptions: []string{
			"(*url.URL).String() is a function of the URL's field values (specs/url.spec); hence field-wise equal results print identically",
			"an error whose dynamic type is *url.Error holds a non-nil pointer (a typed-nil *url.Error inside the interface would make the documented-precondition-free function dereference nil; outside this property's statement)",
			"the documented precondition u != nil",
		},
		Explanation: "heap reasoning on a struct copy: two-state postconditions with an explicit frame (nothing that existed at entry changes except the URL field of a top-level *url.Error), a store scan for the shared mask variable, and non-interference as a self-composition lemma over the contract",
		LevelText:   "proof: for every URL value the result is the input itself (no userinfo) or a fresh copy equal in every component except User == the shared mask; nothing reachable at entry is modified; two inputs differing only in non-nil userinfo give component-wise equal results (self-composition over the contract); RedactUserinfoInURLError writes exactly the URL text of a top-level *url.Error, and only when the URL has userinfo",
		LevelNote:   "assumed: URL.String is a function of field values; safety obligations (nil dereference on a typed-nil *url.Error) are outside this property; trusted: go/ssa lowering, govc encoding, solvers",
		Technique:   "contract-based deductive verification (govc): two-state postconditions + frame obligations + self-composition lemma over the contract, WP over go/ssa, z3/cvc5",
	})
	ps = append(ps, &PropertyDef{
		ID:          "C01",
		Patterns:    []string{"./netutil", "./netutil/urlutil", "./hostsfile", "./stringutil", "./timeutil"},
		Closure:     c01Closure,
		Kinds:       map[string]bool{"bounds": true, "nil": true, "typeassert": true, "div": true, "panic": true, "variant": true, "requires": true, "invariant": true, "ensures": true},
		RequireVars: true,
		OnlySafe:    true,
		Assumptions: []string{
			"external (stdlib, x/net/idna) callees return normally on every input within their documented domain; user callbacks (hostsfile.Set.Add, HandleInvalid, predicates) return normally",
			"only clauses labelled safe_* of in-module contracts are assumed at call sites and at loop cuts, so a change of which inputs are accepted does not affect this check, while a helper returning an out-of-range index does",
		},
		Explanation: "automatically generated safety obligations (index and slice bounds, nil dereference, failed type assertion, division by zero, reachable panic) and loop variants for every function reachable from the exported API of the anchored files; helper preconditions are proved at every call site",
		LevelText:   "proof: every exported text-consuming function of the anchored files, and everything they reach in the module, is free of run-time panics and every non-range loop has a decreasing variant, for all inputs meeting the documented preconditions",
		LevelNote:   "assumed: totality of external callees and callbacks (listed per run in evidence); trusted: go/ssa lowering, govc encoding, solvers",
		Technique:   "contract-based deductive verification (govc): generated safety obligations + loop variants + thin (safe_*) contracts, WP over go/ssa, z3/cvc5",
	})
	ps = append(ps, &PropertyDef{
		ID:       "C03",
		Patterns: []string{"./netutil"},
		Funcs: []string{
			"netutil.IsValidHostOuterRune", "netutil.IsValidHostInnerRune",
			"netutil.ValidateDomainNameLabel", "netutil.ValidateHostnameLabel", "netutil.hasValidTLDChars",
			"netutil.ValidateTLDLabel", "netutil.ValidateServiceNameLabel",
			"netutil.ValidateDomainName", "netutil.ValidateHostname", "netutil.ValidateSRVDomainName",
		},
		Lemmas: []string{"nextDotIs", "nextDotNone", "hostFromStep", "hostFromEnd", "domFromStep", "domFromEnd", "srvFromStep", "srvFromEnd", "hostImpliesSrv", "srvImpliesDom", "nameInclusions"},
		Kinds:  map[string]bool{"ensures": true, "invariant": true, "lemma": true, "requires": true, "typeassert": true, "panic": true},
		NeedsClauses: map[string][]string{
			"netutil.ValidateHostname":      {"grammar", "error_carries_input", "safe_type"},
			"netutil.ValidateDomainName":    {"grammar", "error_carries_input", "safe_type"},
			"netutil.ValidateSRVDomainName": {"grammar", "error_carries_input", "safe_type"},
			"netutil.ValidateHostnameLabel": {"grammar"}, "netutil.ValidateDomainNameLabel": {"grammar"},
			"netutil.ValidateTLDLabel": {"grammar"}, "netutil.ValidateServiceNameLabel": {"grammar"},
			"lemma:nameInclusions": {"host_in_srv", "srv_in_domain"},
		},
		Assumptions: []string{
			"idna.ToASCII is a deterministic function of its argument (toASCII / toASCIIok in specs/idna.spec); the statement itself is phrased relative to it",
			"strings.Cut / HasPrefix by their least-index characterisation (specs/strings.spec); string range yields runes per the UTF-8 decoding contract, so every non-ASCII byte is an invalid label character",
		},
		Explanation: "the grammar of the statement is written as recursive spec functions over the dot-separated labels; each validator's loop carries the invariant 'valid from the start <=> valid from the current label' (one unfolding per iteration); typed-error postconditions; inclusions by strong induction",
		LevelText:   "proof: for every string, each validator returns nil exactly on the documented grammar (relative to idna.ToASCII), every rejection is an *AddrError carrying the original input and the validator's kind, and hostname-valid => SRV-valid => domain-name-valid",
		LevelNote:   "assumed: idna.ToASCII deterministic; strings.Cut/HasPrefix, UTF-8 range contract; trusted: go/ssa lowering, govc encoding, solvers",
		Technique:   "contract-based deductive verification (govc): recursive grammar spec functions, loop invariants, induction lemmas, WP over go/ssa, z3/cvc5",
	})
	ps = append(ps, &PropertyDef{
		ID:       "C11",
		Patterns: []string{"./container"},
		Funcs: []string{
			"container.NewRingBuffer", "container.(*RingBuffer).Push", "container.(*RingBuffer).Len", "container.(*RingBuffer).Current",
			"container.(*RingBuffer).Clear", "container.(*RingBuffer).splitCur", "container.(*RingBuffer).Range", "container.(*RingBuffer).ReverseRange",
			"container.NewSortedSliceSet", "container.(*SortedSliceSet).Add", "container.(*SortedSliceSet).Delete", "container.(*SortedSliceSet).Has",
			"container.(*SortedSliceSet).Len", "container.(*SortedSliceSet).Values", "container.(*SortedSliceSet).Clear", "container.(*SortedSliceSet).Equal",
			"container.(*SortedSliceSet).Clone", "container.(*SortedSliceSet).Range",
			"container.NewMapSet", "container.(*MapSet).Add", "container.(*MapSet).Delete", "container.(*MapSet).Clear", "container.(*MapSet).Has",
			"container.(*MapSet).Len", "container.(*MapSet).Clone", "container.(*MapSet).Equal", "container.(*MapSet).Range", "container.(*MapSet).Values",
		},
		Lemmas: []string{"insertSet", "deleteSet", "sameSeqSameSet"},
		NeedsClauses: map[string][]string{
			"container.(*RingBuffer).Push":    {"inv", "grows", "fills", "slides", "zero_capacity"},
			"container.(*RingBuffer).Clear":   {"as_new"},
			"container.(*RingBuffer).Current": {"nil_or_empty", "oldest_when_full", "zero_when_not_full"},
			"container.(*RingBuffer).Range":   {"oldest_first", "stops_only_on_false"},
			"container.(*RingBuffer).ReverseRange": {"newest_first", "stops_only_on_false"},
			"container.(*SortedSliceSet).Add":    {"inv", "keeps_old", "has_v", "only_v_new", "present_unchanged"},
			"container.(*SortedSliceSet).Delete": {"inv", "only_old", "keeps_others", "v_gone", "absent_unchanged"},
			"container.(*SortedSliceSet).Has":    {"member"},
			"container.(*SortedSliceSet).Clone":  {"own_storage", "origin_unchanged", "inv"},
			"container.(*MapSet).Add":   {"members"}, "container.(*MapSet).Delete": {"members"}, "container.(*MapSet).Has": {"member"},
			"container.(*MapSet).Clone": {"independent", "members", "origin_unchanged"},
			"container.(*MapSet).Values": {"only_members", "all_members"}, "container.(*MapSet).Range": {"only_members", "distinct"},
		},
		Assumptions: []string{
			"element types are abstract values; for SortedSliceSet a strict total order (NaN excluded); the zero value of T is a distinguished value",
			"slices.BinarySearch/Insert/Delete/Sort/Compact/Clone/Equal, maps.Clone/Equal and the builtins append/clear/delete by their documented meaning (specs/slices.spec, specs/misc.spec)",
			"callbacks passed to Range are pure and deterministic; map iteration yields every key exactly once in an arbitrary order",
			"NOT decided: that NewSortedSliceSet / SortedSliceSet.Clone keep exactly the given members (a two-step existential chain through the assumed Sort and Compact contracts that the solvers do not close); MapSet.Values being duplicate-free; MapSet.Equal for two non-nil sets beyond the assumed maps.Equal contract",
			"per-call two-state postconditions plus the object invariants give the history-level statement by induction over the operation sequence (not mechanised)",
		},
		Explanation: "object invariants (ring well-formedness incl. zeroed unfilled slots; strictly ascending slice) and two-state postconditions against abstract views; Range/ReverseRange against a ghost log of the callback calls; set-level facts in index form with pure lemmas (insertSet, deleteSet) applied as lemma calls",
		LevelText:   "proof: each operation of RingBuffer, SortedSliceSet and MapSet re-establishes its invariant and changes the abstract view exactly as the set / ring model says, for every state satisfying the invariant and every argument; iteration order and early termination are proved against the callback log",
		LevelNote:   "assumed library contracts (slices, maps, builtins); undecided clauses listed under assumptions; trusted: go/ssa lowering of generic bodies, govc encoding, solvers",
		Technique:   "contract-based deductive verification (govc): object invariants + two-state postconditions on generic code, ghost callback log, lemma calls, WP over go/ssa, z3/cvc5",
	})
	cacheFuncs := []string{"cache.newCache", "cache.(*cache).Set", "cache.(*cache).Get", "cache.(*cache).Del", "cache.(*cache).Clear", "cache.(*cache).Stats"}
	ps = append(ps, &PropertyDef{
		ID:         "C09",
		Patterns:   []string{"./cache"},
		Funcs:      cacheFuncs,
		Sequential: true,
		NeedsClauses: map[string][]string{
			"cache.(*cache).Set":   {"too_large_refused", "full_without_lru_refused", "stored", "without_lru_reports_replacement", "size_accounting_new_key", "size_accounting_replaced_key", "callback/requires/evicted_entry_gone", "monitor_invariant/count_bound", "nil/", "frame/"},
			"cache.(*cache).Get":   {"hit_value", "miss_nil", "entries_unchanged", "seq_hit_becomes_most_recent"},
			"cache.(*cache).Del":   {"removed", "others_kept", "size_accounting", "nil/"},
			"cache.(*cache).Clear": {"emptied"},
			"cache.(*cache).Stats": {"snapshot", "read_only"},
			"cache.newCache":       {"created", "empty"},
		},
		Assumptions: []string{
			"PARTIAL CLAIM. Decided: no call panics (nil dereference, map write to nil map, bounds) for every Config and every state satisfying the object invariant, including re-entrant calls from OnDelete (state forgotten and invariant re-assumed across the callback); Count <= MaxCount at every unlock; Get/Del/Clear/Stats and the refusal / store cases of Set against the map view; Del's size bookkeeping per entry; hit/miss counted modulo 2^32",
			"NOT decided (no contract within reach): Size == sum of the live entries' lengths and Size <= MaxSize (needs a finite sum over the map, which the encoding cannot express; only the per-entry deltas are proved); the full LRU order of the list (only 'a hit makes the entry the most recently used one' is proved, relative to the assumed well-formedness of the list) and 'OnDelete exactly once per evicted entry'",
			"UNCHECKED assumptions: the intrusive list's well-formedness (sentinel_linked, lru_items_linked) is assumed whenever the lock is acquired and at the eviction loop head, and is not re-proved at Unlock; total live bytes <= 2^62",
			"the unsafe structPtr idiom is modelled as the inverse of taking the address of the embedded listItem field; callers do not modify key/value slices after Set",
		},
		Explanation: "monitor invariant on cache.lock (assumed at Lock, proved at every Unlock) plus two-state postconditions in single-goroutine mode; safety obligations for the list code rest on the assumed list well-formedness",
		LevelText:   "proof (partial): object-invariant induction over all call histories and configs for panic-freedom, the count bound, the map view of Get/Set/Del/Clear/Stats and the refusal cases; the size total and the eviction order are outside the claim",
		LevelNote:   "see assumptions: list well-formedness and the 2^62 byte bound are assumed, the size sum and LRU order are not decided; trusted: go/ssa lowering, govc encoding, solvers, specs/sync.spec",
		Technique:   "contract-based deductive verification (govc): monitor invariant + two-state postconditions, heap model with embedded list nodes, WP over go/ssa, z3/cvc5",
	})
	ps = append(ps, &PropertyDef{
		ID:       "C10",
		Patterns: []string{"./cache"},
		Funcs:    cacheFuncs,
		Kinds:    map[string]bool{"guarded": true, "requires": true, "invariant": true, "nil": true, "ensures": true},
		OnlyClauses: map[string][]string{
			"cache.newCache": {"created"}, "cache.(*cache).Set": {"unlocked"}, "cache.(*cache).Get": {"unlocked"},
			"cache.(*cache).Del": {"unlocked"}, "cache.(*cache).Clear": {"unlocked"}, "cache.(*cache).Stats": {"unlocked"},
		},
		NeedsClauses: map[string][]string{
			"cache.(*cache).Stats": {"guarded/items_read", "guarded/size_read", "requires/not_held", "requires/held"},
			"cache.(*cache).Set":   {"guarded/", "callback/requires/lock_released", "unlock/monitor_invariant/count_bound"},
			"cache.(*cache).Get":   {"guarded/"}, "cache.(*cache).Del": {"guarded/"}, "cache.(*cache).Clear": {"guarded/"},
		},
		Assumptions: []string{
			"PARTIAL CLAIM. Decided: lock discipline - every read and write of cache.items and cache.size happens with cache.lock held, the lock is never taken while held nor released while not held, OnDelete runs with the lock released, hit/miss are only touched through sync/atomic; the monitor invariant (map allocated, count bound, items keyed by their own key) holds at every Unlock although the protected state is forgotten at every Lock (other goroutines may have run)",
			"under the platform's mutex semantics (mutual exclusion + happens-before, assumed) the discipline implies data-race freedom on those fields and that every Stats snapshot taken under the lock satisfies the count bound",
			"NOT decided: per-key linearizability as such (argued on paper from the discipline: each method's effect on the map happens in one critical section; Set = eviction sections followed by one insertion section); accesses to the list links through *listItem pointers are not attributed to a cache object and are not lock-checked; conf / item.key / item.value immutability after construction is by inspection of the store scan, not an obligation",
		},
		Explanation: "guarded-by obligations generated at every field access, mutex protocol as call-site preconditions, monitor invariant proved at every Unlock with the protected state havocked at every Lock",
		LevelText:   "proof (partial): lock discipline and monitor invariant for every path of every method; no interleaving semantics - the consequences for schedules rest on the assumed mutex semantics",
		LevelNote:   "assumed: sync.Mutex mutual exclusion/happens-before, sync/atomic atomicity; see assumptions for what is not decided",
		Technique:   "contract-based deductive verification (govc): guarded-by obligations + monitor invariants, WP over go/ssa, z3/cvc5",
	})
	ps = append(ps, &PropertyDef{
		ID:       "C04",
		Patterns: []string{"./netutil"},
		Funcs:    []string{"netutil.fromHexByte", "netutil.asciiToLower", "netutil.ipv6FromReversed", "netutil.ipv4FromReversed", "netutil.IPFromReversedAddr"},
		Kinds:    map[string]bool{"ensures": true, "invariant": true, "requires": true, "lemma": true, "assert": true},
		NeedsClauses: map[string][]string{
			"netutil.IPFromReversedAddr": {"typed_error", "valid_name", "v6_exact", "v4_suffix"},
			"netutil.ipv6FromReversed":   {"accepts", "address"}, "netutil.ipv4FromReversed": {"accepts", "address"},
			"netutil.asciiToLower": {"lowered"}, "netutil.fromHexByte": {"value"},
		},
		Assumptions: []string{
			"PARTIAL CLAIM. Decided (decoder soundness): whatever IPFromReversedAddr accepts is a valid domain name; for an IPv6 result the text (minus one trailing dot, ASCII-case-insensitively) is exactly the 72-byte nibble name of the returned address; for an IPv4 result it ends in .in-addr.arpa and its first part is accepted by netip.ParseAddr as an IPv4 address whose bytes are reversed (ipv4FromReversed against the assumed dotted-quad contract of ParseAddr); every rejection is an *AddrError; the lower-casing never maps non-ASCII bytes to ASCII letters",
			"NOT decided: IPToReversedAddr producing the canonical name (strings.Builder content through closures, decimal formatting) and therefore the round trip / completeness direction; the IPv4 octets of the accepted text in terms of the original-case text",
			"assumed: netip.ParseAddr accepts a dotted quad iff it is four canonical decimal octets (specs/netip.spec), idna.ToASCII deterministic, strings.HasSuffix/TrimSuffix",
		},
		Explanation: "postconditions written from RFC 3596 section 2.5 on the real decoder; the case-insensitive statement on the caller's text is bridged to the lower-cased copy through the proved contract of asciiToLower",
		LevelText:   "proof (partial): soundness of the ARPA address decoder for all strings (IPv6 exactly, IPv4 through the assumed ParseAddr contract); the encoder and the round trip are outside the claim",
		LevelNote:   "see assumptions; trusted: go/ssa lowering, govc encoding, solvers",
		Technique:   "contract-based deductive verification (govc): postconditions from the RFC text, loop invariants, WP over go/ssa, z3/cvc5",
	})
	ps = append(ps, &PropertyDef{
		ID:       "C05",
		Patterns: []string{"./netutil"},
		Funcs: []string{"netutil.fromHexByte", "netutil.asciiToLower", "netutil.ipv6NetFromReversed", "netutil.ipv6FromReversed", "netutil.subnetFromReversedV6",
			"netutil.indexFirstV6Label", "netutil.ipv4NetFromReversed", "netutil.ipv4FromReversed", "netutil.PrefixFromReversedAddr", "netutil.ExtractReversedAddr"},
		Lemmas: []string{"decValSmall", "dotsInStable", "dotsInNonNeg", "dotsInStep"},
		Kinds:  map[string]bool{"ensures": true, "invariant": true, "requires": true, "lemma": true, "assert": true},
		NeedsClauses: map[string][]string{
			"netutil.ipv6NetFromReversed":  {"accepts", "bits", "address"},
			"netutil.subnetFromReversedV6": {"accepts", "bits", "address"},
			"netutil.indexFirstV6Label":    {"run", "at_most_32", "longest"},
			"netutil.ipv4NetFromReversed":  {"check_at_store/l/canonical_octet", "check_at_store/l/octet_value", "bits"},
			"netutil.PrefixFromReversedAddr": {"valid_name", "v6_accepts", "v6_prefix"},
			"netutil.ExtractReversedAddr":    {"valid_name"},
		},
		Assumptions: []string{
			"PARTIAL CLAIM. Decided: the IPv6 side completely for the lower-cased text - ipv6NetFromReversed / subnetFromReversedV6 accept exactly k <= 32 one-hex-digit labels before ip6.arpa and return the prefix of 4k bits with the nibbles reversed and zero host bits; indexFirstV6Label returns the start of the longest label-aligned run of hex labels (at most 32). On the IPv4 side every label that ipv4NetFromReversed accepts is a canonical decimal octet without leading zeros and the stored byte is its value; the number of bits is a multiple of 8 up to 32; the four-label form goes through ipv4FromReversed",
			"At the level of the exported functions: PrefixFromReversedAddr and ExtractReversedAddr accept only valid domain names (after removing at most one trailing dot); PrefixFromReversedAddr on a valid name whose lower-cased form ends in ip6.arpa succeeds iff that form is at most 72 bytes of one-hex-digit labels before the suffix, and then returns exactly the denoted prefix",
			"NOT decided: the IPv4 half of the iff-statement and ExtractReversedAddr's 'longest suffix' statement at the level of the exported functions, the position/value correspondence of IPv4 labels (the positional invariant did not discharge robustly and was withdrawn), indexFirstV4Label's longest-suffix property",
			"assumed: strconv.ParseUint(s, 10, 8) accepts exactly non-empty digit strings below 256 (with the stated consequences), strings.LastIndexByte / HasSuffix, netip.PrefixFrom / AddrFrom16 / AddrFrom4",
		},
		Explanation: "right-to-left scanner invariants over absolute positions; bit operations on nibbles with exact 8-bit semantics; a per-label check at every accepted label of the IPv4 scanner",
		LevelText:   "proof (partial): IPv6 reverse-network decoding and extraction index for all strings; canonical-octet discipline of the IPv4 scanner; top-level iff not decided",
		LevelNote:   "see assumptions; trusted: go/ssa lowering, govc encoding, solvers",
		Technique:   "contract-based deductive verification (govc): loop invariants on real scanners, lemma calls, WP over go/ssa, z3/cvc5",
	})
	ps = append(ps, &PropertyDef{
		ID:       "C08",
		Patterns: []string{"./hostsfile"},
		Funcs: []string{"hostsfile.Parse", "hostsfile.NewDefaultStorage", "hostsfile.(*orderedSet).add", "hostsfile.(*DefaultStorage).Add",
			"hostsfile.(*DefaultStorage).ByAddr", "hostsfile.(*DefaultStorage).ByName"},
		Kinds: map[string]bool{"ensures": true, "invariant": true, "requires": true, "frame": true, "nil": true, "bounds": true},
		NeedsClauses: map[string][]string{
			"hostsfile.Parse": {"line_counter", "hs_stride", "hs_unmarshal_each_line", "hs_source_tagged", "hs_records_distinct", "hs_valid_added", "hs_invalid_reported",
				"hs_invalid_source", "hs_invalid_same_token", "hs_invalid_line_error", "hs_invalid_line_number", "plain_one_outcome_per_line", "plain_errors_typed", "plain_errors_in_range"},
			"hostsfile.(*orderedSet).add":        {"present_noop", "appended", "marks_key", "frame/"},
			"hostsfile.(*DefaultStorage).Add":    {"inv", "no_names_no_change", "indexes_only_grow", "addr_indexed", "last_name_indexed", "last_name_listed", "frame/"},
			"hostsfile.(*DefaultStorage).ByAddr": {"found", "missing"},
			"hostsfile.(*DefaultStorage).ByName": {"found", "missing"},
		},
		Assumptions: []string{
			"PARTIAL CLAIM. Decided for Parse (ghost event log over the real loop): with a HandleSet destination the calls are, per scanned token and in order, Record.UnmarshalText on a record tagged with the source name, each line on a record object of its own, then Add of that very record when it returned nil, otherwise HandleInvalid with the source name, the same token and a *LineError whose Line is the 1-based ordinal of the token; without a HandleSet exactly one of Add / an appended *LineError per token, each numbered within the tokens read so far; the loop terminates with the scanner",
			"Decided for DefaultStorage: a record without names changes neither index; existing index entries are never replaced or removed; after Add the address is a key of the by-address index and every name is, lower-cased, a key of the by-name index whose set marks the address and whose by-address set marks the lower-cased name; an ordered set appends a new value at the end exactly when its key is new and otherwise changes nothing; ByName looks up the lower-cased host, ByAddr the address, and both return nil for a missing key",
			"NOT decided: that the tokens are the lines of the source and independence of reader fragmentation (bufio.Scanner, assumed), which lines are well-formed (Record.UnmarshalText, property C07), ascending line numbers of the joined error, the global representation invariant of the storage (value list == key set for every entry, no duplicates, the two indexes agreeing) - it needs ownership/separation between the per-key sets which the contracts do not carry; only the per-call effects on the touched sets are proved",
			"assumed: interface methods (Set.Add, HandleInvalid, NamedReader.Name) and UnmarshalText modify only what their contracts say; strings.ToLower is a deterministic function of its argument; rec.Names shares no memory with the storage (precondition names_not_aliased)",
		},
		Explanation: "loop invariants over a ghost log of the calls made through the destination interfaces; per-call contracts on the real storage methods with frame conditions",
		LevelText:   "proof (partial): call protocol of Parse for all inputs and all destinations; per-call effects of DefaultStorage; global index invariants not decided",
		LevelNote:   "see assumptions; trusted: go/ssa lowering, govc encoding, solvers",
		Technique:   "contract-based deductive verification (govc): ghost event log, loop invariants, frame conditions, WP over go/ssa, z3/cvc5",
	})
	ps = append(ps, &PropertyDef{
		ID:       "C18",
		Patterns: []string{"./service", "./osutil"},
		Funcs: []string{"osutil.isShutdownSignal", "osutil.IsShutdownSignal", "service.(*SignalHandler).Add", "service.(*SignalHandler).shutdown", "service.(*SignalHandler).Handle",
			"service.(*RefreshWorker).refresh", "service.(*RefreshWorker).Shutdown", "service.(*RefreshWorker).refreshInALoop"},
		Kinds: map[string]bool{"ensures": true, "invariant": true, "requires": true, "recovers": true, "frame": true, "nil": true, "bounds": true, "variant": true},
		NeedsClauses: map[string][]string{
			"osutil.isShutdownSignal":            {"shutdown_signals"},
			"service.(*SignalHandler).Add":       {"appended", "own_storage"},
			"service.(*SignalHandler).shutdown":  {"every_service_once", "reverse_order", "success_iff_all_nil", "count", "order", "status_so_far"},
			"service.(*SignalHandler).Handle":    {"on_panic/success_only_after_complete_shutdown", "only_on_shutdown_signal", "all_shut_down", "reverse_order", "success_iff_all_nil", "nothing_before_shutdown_signal", "ignored_so_far"},
			"service.(*RefreshWorker).refresh":   {"two_calls", "context_from_constructor", "refreshes_with_it", "returns_its_error"},
			"service.(*RefreshWorker).Shutdown":  {"no_refresh_unless_configured", "final_refresh_once"},
			"service.(*RefreshWorker).refreshInALoop": {"wait_is_latest_schedule_answer", "delay_from_schedule", "schedule_asked_with_now", "refresh_after_timer",
				"refresh_with_new_context", "handler_gets_the_error", "every_error_handled_once", "reschedules_after_refresh", "timer_leads_to_refresh"},
		},
		Assumptions: []string{
			"PARTIAL CLAIM. Decided for SignalHandler (ghost event log over the real loops): Add appends the services in order to a list that shares no memory with the caller's argument slice; signals for which IsShutdownSignal is false cause no call on any service; after the first shutdown signal every registered service's Shutdown is called exactly once, last registered first, regardless of earlier errors; the status is success exactly when every call returned nil; if a service panics the recovered Handle does not report success (named result at every point where foreign code runs); IsShutdownSignal is exactly SIGINT/SIGQUIT/SIGTERM",
			"Decided for RefreshWorker, single-goroutine view: every Refresh uses a context obtained from the constructor on the worker's context; each Refresh error is handed to the ErrorHandler immediately and exactly once, nil errors never; after each refresh the clock and the schedule are consulted and the next timer uses exactly that answer; Shutdown refreshes once iff RefreshOnShutdown and returns an error iff that refresh failed",
			"NOT decided (outside contracts on sequential code): that the timer fires once per elapsed interval, the interleaving of Shutdown with the worker goroutine ('after Shutdown refreshes no more'), closing the done channel twice; channel receives and select are modelled as arbitrary choices",
			"assumed: interface methods (services, refresher, clock, schedule, handler, context constructor) and the cancel functions do not modify the handler's / worker's fields; context.WithTimeout's cancel function does not panic",
		},
		Explanation: "loop invariants over a ghost log of interface calls; an exceptional postcondition (recovers) evaluated wherever code outside the contracts may panic",
		LevelText:   "proof (partial): shutdown order/completeness/status and panic edge for all service lists and signal sequences; call protocol of the refresh loop; timing and interleavings not decided",
		LevelNote:   "see assumptions; trusted: go/ssa lowering, govc encoding, solvers",
		Technique:   "contract-based deductive verification (govc): ghost event log, loop invariants, exceptional postcondition, WP over go/ssa, z3/cvc5",
	})
	ps = append(ps, &PropertyDef{
		ID:       "C02",
		Patterns: []string{"./netutil"},
		Funcs: []string{"netutil.IsValidHostOuterRune", "netutil.IsValidHostInnerRune", "netutil.IsValidHostnameLabel", "netutil.ValidateHostnameLabel",
			"netutil.hasValidTLDChars", "netutil.isValidTLDLabel", "netutil.ValidateTLDLabel", "netutil.IsValidHostname", "netutil.ValidateHostname",
			"netutil.isIPv4Label", "netutil.isUint16"},
		Lemmas: []string{"nextDotIs", "nextDotNone", "hostFromStep", "hostFromEnd", "twinHostnameLabel", "twinHostname", "decValZero", "decValStep", "decValNonNeg", "decValMono"},
		Kinds:  map[string]bool{"ensures": true, "invariant": true, "lemma": true, "requires": true},
		NeedsClauses: map[string][]string{
			"netutil.IsValidHostnameLabel": {"grammar"}, "netutil.ValidateHostnameLabel": {"grammar"},
			"netutil.IsValidHostname": {"grammar"}, "netutil.ValidateHostname": {"grammar"},
			"netutil.isIPv4Label": {"grammar"}, "netutil.isUint16": {"grammar"},
		},
		Bounded: c02Bounded,
		Assumptions: []string{
			"PARTIAL CLAIM. Proved (for all strings): IsValidHostnameLabel(s) and ValidateHostnameLabel(s) == nil are both equivalent to the same label grammar, and IsValidHostname(s) and ValidateHostname(s) == nil to the same name grammar (labels are maximal dot-free segments, IDNA conversion as an assumed deterministic function), hence each validator agrees with its reference; two building blocks of the IP validators against their definitions: isIPv4Label accepts exactly the canonical decimal octets, isUint16 exactly the digit strings of value at most 65535",
			"BOUNDED, not proved: IsValidIPString vs netip.ParseAddr and IsValidIPPortString vs netip.ParseAddrPort are compared on the real code over a finite enumeration (see coverage.bounded_parts); the IPv6 text grammar of net/netip was not brought under contract (a recursive grammar over positions, field counts and the ellipsis that the solvers do not handle unprompted)",
			"assumed: idna.ToASCII is deterministic",
		},
		Explanation: "both members of each hostname pair carry the postcondition 'result <==> grammar(s)' for the same spec predicate; the IP halves are a bounded differential check against the real parsers",
		LevelText:   "proof for the two hostname equivalences (all strings); bounded differential check for the two IP equivalences",
		LevelNote:   "the bounded part is labelled bounded in the evidence and is not counted among the discharged obligations",
		Technique:   "contract-based deductive verification (govc) for the hostname pairs; bounded exhaustive differential test on the real code for the IP pairs (stand-in)",
	})
	ps = append(ps, &PropertyDef{
		ID:       "C13",
		Patterns: []string{"./stringutil"},
		Funcs:    []string{"stringutil.SplitTrimmed", "stringutil.ContainsFold"},
		Lemmas:   []string{"keptZero", "keptStep", "keptBounds"},
		Kinds:    map[string]bool{"ensures": true, "invariant": true, "requires": true, "frame": true, "bounds": true, "nil": true, "variant": true, "lemma": true},
		NeedsClauses: map[string][]string{
			"stringutil.SplitTrimmed": {"non_nil", "empty_input", "count", "pieces_in_order", "count_so_far", "placed", "unread_intact"},
		},
		Bounded: c13Bounded,
		Assumptions: []string{
			"PARTIAL CLAIM. Proved for SplitTrimmed (all inputs): with t = TrimSpace(str) and the pieces of strings.Split(t, sep) as abstract values, the result is non-nil, empty when t is empty, and otherwise holds exactly the pieces whose trimmed form is non-empty, trimmed, each at the index equal to the number of kept pieces before it (hence in order, no piece lost or duplicated); the in-place reuse of the split slice never overwrites a piece that has not been read yet, and clearing the tail does not touch the result",
			"BOUNDED, not proved: ContainsFold against the reference definition (Unicode simple case folding tables are not expressible in the contracts); see coverage.bounded_parts; termination and index safety of its loop are proved (C01)",
			"assumed: strings.TrimSpace and strings.Split are deterministic functions of their arguments (how a string is cut into pieces is not modelled)",
		},
		Explanation: "SplitTrimmed against a rank function over the abstract pieces (recursive spec function hidden behind step lemmas); ContainsFold by a bounded differential check on the real code",
		LevelText:   "proof for SplitTrimmed (all inputs, relative to abstract Split/TrimSpace); bounded differential check for ContainsFold",
		LevelNote:   "the bounded part is labelled bounded in the evidence and is not counted among the discharged obligations",
		Technique:   "contract-based deductive verification (govc) for SplitTrimmed; bounded exhaustive differential test on the real code for ContainsFold (stand-in)",
	})
	ps = append(ps, &PropertyDef{
		ID:       "C14",
		Patterns: []string{"./timeutil", "./netutil", "./netutil/urlutil"},
		Funcs: []string{"timeutil.(Duration).String", "timeutil.(Duration).MarshalText", "timeutil.(*Duration).UnmarshalText",
			"netutil.JoinHostPort", "netutil.SplitHostPort", "netutil.ParseHostPort", "netutil.(HostPort).String", "netutil.(HostPort).MarshalText", "netutil.(*HostPort).UnmarshalText",
			"netutil.(*Prefix).UnmarshalText",
			"netutil/urlutil.Parse", "netutil/urlutil.(*URL).MarshalText", "netutil/urlutil.(*URL).UnmarshalText", "netutil/urlutil.(*URL).UnmarshalJSON"},
		Lemmas: []string{"canonicalTextNonEmpty"},
		Kinds:  map[string]bool{"ensures": true, "invariant": true, "requires": true, "frame": true, "lemma": true, "nil": true, "bounds": true},
		NeedsClauses: map[string][]string{
			"timeutil.(Duration).String":               {"as_is", "drops_zero_seconds", "drops_zero_minutes_and_seconds", "parses_back"},
			"timeutil.(Duration).MarshalText":          {"text_is_string"},
			"timeutil.(*Duration).UnmarshalText":       {"accepts", "parsed"},
			"netutil.JoinHostPort":                     {"splits_back"},
			"netutil.SplitHostPort":                    {"accepts", "parts"},
			"netutil.ParseHostPort":                    {"accepts", "parts"},
			"netutil.(HostPort).String":                {"parses_back"},
			"netutil.(HostPort).MarshalText":           {"parses_back"},
			"netutil.(*HostPort).UnmarshalText":        {"accepts", "parts", "error_keeps"},
			"netutil.(*Prefix).UnmarshalText":          {"with_slash", "bare_address", "error_keeps"},
			"netutil/urlutil.Parse":                    {"accepts", "parsed", "reparsable"},
			"netutil/urlutil.(*URL).MarshalText":       {"text_is_string"},
			"netutil/urlutil.(*URL).UnmarshalText":     {"accepts", "parsed", "reparsable"},
			"netutil/urlutil.(*URL).UnmarshalJSON":     {"null_keeps", "decodes_string"},
		},
		Assumptions: []string{
			"Proved relative to assumed contracts of the standard library, stated over content identities of texts: (time) Duration.String's text ends in m0s / h0m0s for non-zero whole minutes / hours and ParseDuration reads the canonical text back, also without those zero units; (net) SplitHostPort(JoinHostPort(h, p)) == (h, p) for bracket-free h; (strconv) ParseUint(FormatUint(i, 10), 10, 16) == i iff i < 65536; (net/url) re-parsing String() of a parsed URL succeeds and is idempotent; (encoding/json) decoding the encoding of a text gives the text; netip.ParsePrefix / ParseAddr as uninterpreted functions",
			"what the proof contributes is the glue: which tail Duration.String cuts under which arithmetic condition (negative values included); that each Marshal/String result is in the form the matching Unmarshal/Parse accepts and yields the same value; that Prefix.UnmarshalText delegates on '/' and builds the full-length prefix otherwise; that UnmarshalJSON hands the decoded (not the raw) string to the text parser",
			"KNOWN FINDING (open): the URL round trips need the canonical text to be non-empty; Parse(\"#\") and Parse(\"//\") are accepted with an empty String()",
		},
		Explanation: "each encoder carries a postcondition in the vocabulary of the decoder's acceptance predicate, so the round trips are two-step consequences of the contracts",
		LevelText:   "proof of the glue code relative to assumed contracts of time, net, strconv, net/url and encoding/json; one open known finding",
		LevelNote:   "see assumptions; trusted: go/ssa lowering, govc encoding, solvers",
		Technique:   "contract-based deductive verification (govc): postconditions over uninterpreted acceptance/value functions of the standard-library parsers, WP over go/ssa, z3/cvc5",
	})
	ps = append(ps, &PropertyDef{
		ID:       "C20",
		Patterns: []string{"./netutil/httputil"},
		Funcs: []string{"netutil/httputil.Wrap", "netutil/httputil.(*CodeRecorderResponseWriter).WriteHeader", "netutil/httputil.(*CodeRecorderResponseWriter).Write",
			"netutil/httputil.(*CodeRecorderResponseWriter).SetImplicitSuccess", "netutil/httputil.(*CodeRecorderResponseWriter).Reset", "netutil/httputil.(*CodeRecorderResponseWriter).Code",
			"netutil/httputil.CopyRequestTo", "netutil/httputil.(*LogMiddleware).logFinished", "netutil/httputil.(*LogMiddleware).Wrap$1"},
		Kinds: map[string]bool{"ensures": true, "invariant": true, "requires": true, "frame": true, "nil": true, "bounds": true, "variant": true},
		NeedsClauses: map[string][]string{
			"netutil/httputil.Wrap": {"one_call_each", "nested_in_order", "outermost_returned", "count", "nested", "current"},
			"netutil/httputil.(*CodeRecorderResponseWriter).WriteHeader":        {"recorded", "forwarded"},
			"netutil/httputil.(*CodeRecorderResponseWriter).Write":              {"forwarded"},
			"netutil/httputil.(*CodeRecorderResponseWriter).SetImplicitSuccess": {"implicit_200"},
			"netutil/httputil.(*CodeRecorderResponseWriter).Reset":              {"reset"},
			"netutil/httputil.CopyRequestTo":                                    {"same_request"},
			"netutil/httputil.(*LogMiddleware).Wrap$1":                          {"handler_once", "own_writer", "own_request", "finished_logged_once", "finished_before_recycling", "three_objects_returned"},
		},
		Assumptions: []string{
			"PARTIAL CLAIM. Decided (sequential, for all inputs): Wrap applies the middlewares last to first, each exactly once and each to the result of the previous application, and returns the outermost result, so that a request enters m1 first and reaches h last provided each middleware's handler calls the handler it wrapped; the status-code recorder records exactly the code passed to WriteHeader, forwards WriteHeader and Write unchanged to the wrapped writer, reports 200 when no code was set and is cleared by Reset; LogMiddleware's handler closure, one request at a time: the wrapped handler runs exactly once, on the pooled recorder reset to this request's writer and on a copy of this request that agrees with it in method, URL, host, headers, body, remote address and request URI; the 'finished' record is written for that recorder while it still belongs to the request - the last four logged steps are logFinished followed by the three Pool.Put calls; two objects are taken from and three returned to the pools; nothing but pooled objects is written",
			"NOT decided - outside what contracts on sequential code can express: per-request isolation under concurrent requests (what another goroutine does with a pooled object between Get and Put; interleavings); the logger attributes carried by the context (slog handler internals); that the client receives what the invocation wrote (the recorder forwards, net/http does the rest)",
			"assumed (trusted contracts): syncutil.Pool.Get returns some non-nil object of the pool's type, attrsSlicePtr returns a non-nil pointer to a slice with room for the four attributes; http.Request.WithContext makes a shallow copy",
			"assumed: interface methods (Middleware.Wrap, ResponseWriter.*) do not modify the recorder's fields",
		},
		Explanation: "ghost event log over the real Wrap loop; per-method postconditions with frame conditions on the recorder",
		LevelText:   "proof (partial): middleware nesting order, the status-code recorder and the per-request step order of the LogMiddleware handler for all inputs; isolation under concurrency not decided",
		LevelNote:   "see assumptions; trusted: go/ssa lowering, govc encoding, solvers",
		Technique:   "contract-based deductive verification (govc): ghost event log, loop invariants, frame conditions, WP over go/ssa, z3/cvc5",
	})
	ps = append(ps, &PropertyDef{
		ID:       "C19",
		Patterns: []string{"./logutil/slogutil"},
		Funcs:    []string{"logutil/slogutil.(*JSONHybridHandler).Enabled", "logutil/slogutil.newJSONHybridMessage", "logutil/slogutil.(*JSONHybridHandler).WithAttrs", "logutil/slogutil.newBufferedTextHandler", "logutil/slogutil.(*bufferedTextHandler).reset"},
		Kinds:    map[string]bool{"ensures": true, "requires": true, "frame": true, "nil": true, "bounds": true},
		NeedsClauses: map[string][]string{
			"logutil/slogutil.(*JSONHybridHandler).Enabled":   {"at_least_configured"},
			"logutil/slogutil.newJSONHybridMessage":           {"severity", "message_kept"},
			"logutil/slogutil.(*JSONHybridHandler).WithAttrs": {"derived", "attrs_appended", "parent_unchanged", "frame/"},
			"logutil/slogutil.newBufferedTextHandler":         {"pair_linked"},
			"logutil/slogutil.(*bufferedTextHandler).reset":   {"same_pair"},
		},
		Assumptions: []string{
			"PARTIAL CLAIM. Decided (sequential, all inputs): Enabled(l) holds iff l is at least the configured level; the emitted object's severity is ERROR exactly for levels >= slog.LevelError and NORMAL otherwise and the message bytes are passed on unchanged; WithAttrs returns a new handler that shares level, encoder, pool and mutex, carries len(parent attrs)+len(new attrs) attributes and writes to no memory that existed before the call - in particular not to the parent's attribute array, so attributes of one derived handler cannot show up in a sibling; the pooled (buffer, text handler) pair that Handle uses stays linked: the handler made by the constructor writes into that very buffer, and reset keeps both objects and only empties the buffer",
			"NOT decided: Handle itself (one line per record, message == the slog.TextHandler line with the accumulated attributes, newline stripped) - slog.Record is an opaque library value to the generator and the step order would have to be stated over assumed contracts of log/slog, bytes.Buffer, encoding/json and sync.Pool; that lines of concurrent records never interleave (mutex around Encode; interleavings are outside contracts on sequential code); the JSON encoder's output format",
		},
		Explanation: "per-function postconditions; the frame condition 'modifies nothing' on WithAttrs is what excludes the append-into-shared-capacity bug",
		LevelText:   "proof (partial): level filter, severity mapping and attribute isolation of derived handlers; Handle and concurrency not decided",
		LevelNote:   "see assumptions; trusted: go/ssa lowering, govc encoding, solvers",
		Technique:   "contract-based deductive verification (govc): postconditions and frame conditions, WP over go/ssa, z3/cvc5",
	})
	ps = append(ps, &PropertyDef{
		ID:       "C07",
		Patterns: []string{"./hostsfile"},
		Funcs:    []string{"hostsfile.cutStringField", "hostsfile.cutField", "hostsfile.(*Record).UnmarshalText"},
		Lemmas:   []string{"fieldStartZero", "fieldStartStep"},
		Kinds:    map[string]bool{"ensures": true, "invariant": true, "requires": true, "frame": true, "lemma": true, "bounds": true, "nil": true, "variant": true},
		NeedsClauses: map[string][]string{
			"hostsfile.cutStringField": {"no_space", "cut"},
			"hostsfile.cutField":       {"no_space", "cut"},
			"hostsfile.(*Record).UnmarshalText": {"empty_line", "no_hosts", "bad_address", "address", "names_are_the_fields", "accepted_iff_all_names_valid",
				"at_field", "rest", "valid_so_far", "recut", "placed"},
		},
		Assumptions: []string{
			"PARTIAL CLAIM. Proved for Record.UnmarshalText (all byte strings): with the text before the first '#' trimmed of spaces and tabs and split into fields at runs of spaces/tabs (positions defined by a recursive spec function over the line's own bytes) - no field gives ErrEmptyLine, one field ErrNoHosts; otherwise the address is netip's parse of field 0 (error when it does not parse); the names are exactly fields 1..n as views of the line, each accepted by ValidateDomainName, where n is the number of leading valid names: err == nil iff no further field exists, and otherwise the next field is the first one ValidateDomainName rejects (only the names before it are retained)",
			"NOT decided: MarshalText and the re-parse round trip (needs an induction relating the positions of the marshalled text to the field positions; not built); that the error for a bad name is an *AddrError (it is wrapped by fmt.Errorf: only err != nil is proved)",
			"assumed: netip.Addr.UnmarshalText as uninterpreted parseAddrOK/parseAddr; bytes/strings IndexAny, Trim, TrimLeft, IndexByte as 'first/last position in/not in the set' functions; ValidateDomainName's contract is proved under C03",
		},
		Explanation: "the field grammar is a hidden recursive position function over the real line bytes, unfolded by one-step lemmas at the two loops of the real parser",
		LevelText:   "proof (partial): the acceptance/classification/content half of the property for all inputs; the MarshalText round trip is not decided",
		LevelNote:   "see assumptions; trusted: go/ssa lowering, govc encoding, solvers",
		Technique:   "contract-based deductive verification (govc): loop invariants over absolute positions, hidden recursive spec function with step lemmas, WP over go/ssa, z3/cvc5",
	})
	out := map[string]*PropertyDef{}
	for _, p := range ps {
		out[p.ID] = p
	}
	return out
}

